// Expression-template scalar sweep (C19; sub-checks reused by C01-C07, C12).
// GMP's mpq_class is used DIRECTLY as the library's scalar type. It is an exact
// type that satisfies every documented requirement, and - like the
// boost::multiprecision types the README advertises in their default et_on
// flavour - its arithmetic operators return UNEVALUATED expression objects
// that hold references to their operands. Library code that writes
// `auto w = b - a;` (and then changes a), returns such an expression from a
// lambda with a deduced return type, or binds it to `const auto` next to a
// temporary, compiles, is bit-identical for built-in floats and for the plain
// archetype Q, and is wrong (stale / dangling reads) for such types.
// Oracle: the reference model (exact), results of every public operation
// family; ASan reports the dangling cases as use-after-scope / use-after-free.
// Harness rule: no `auto` for scalar-valued expressions in this file.
#include "common/cases.h"
#include <bspline/interpolation/interpolation.h>

using namespace vc;
namespace bo = bspline::operators;
namespace bi = bspline::integration;
namespace ip = bspline::interpolation;
using T = mpq_class;

struct EtC {
  GridC g;
  SplineC a, b;
  i64 order = 0, cnum = 1, cden = 1, knotrep = 0;
  template <class A>
  void io(A &x) { x("g", g); x("a", a); x("b", b); x("order", order); x("cnum", cnum); x("cden", cden); x("knotrep", knotrep); }
};

struct EtSingular : std::runtime_error {
  EtSingular() : std::runtime_error("singular") {}
};
// user solver for the scalar type T (exact Gaussian elimination on copies)
class EtSolver final : public ip::internal::ISolver<T> {
  size_t n_;
  std::vector<T> M_, b_, x_;

 public:
  explicit EtSolver(size_t n) : n_(n), M_(n * n, T(0)), b_(n, T(0)), x_(n, T(0)) {}
  T &M(size_t i, size_t j) override { return M_.at(i * n_ + j); }
  T &b(size_t i) override { return b_.at(i); }
  T &x(size_t i) override { return x_.at(i); }
  void solve() override {
    std::vector<std::vector<R>> A(n_, std::vector<R>(n_ + 1));
    for (size_t i = 0; i < n_; i++) {
      for (size_t j = 0; j < n_; j++) A[i][j] = M_[i * n_ + j];
      A[i][n_] = b_[i];
    }
    for (size_t col = 0; col < n_; col++) {
      size_t piv = col;
      while (piv < n_ && A[piv][col] == 0) piv++;
      if (piv == n_) throw EtSingular();
      std::swap(A[piv], A[col]);
      for (size_t r = 0; r < n_; r++) {
        if (r == col || A[r][col] == 0) continue;
        R f = A[r][col] / A[col][col];
        for (size_t k = col; k <= n_; k++) { R t = f * A[col][k]; A[r][k] -= t; }
      }
    }
    for (size_t i = 0; i < n_; i++) { R v = A[i][n_] / A[i][i]; x_[i] = v; }
  }
};

template <size_t o>
struct Ctx {
  bspline::support::Grid<T> grid;
  bspline::Spline<T, o> a;
  bspline::Spline<T, 1> b;
  ref::Fn fa, fb;
  T cq;
  R cr;
  Ctx(const EtC &c)
      : grid(make_grid<T>(c.g)), a(make_spline<T, o>(grid, c.a)), b(make_spline<T, 1>(grid, c.b)), fa(model_of(c.g, c.a, o)), fb(model_of(c.g, c.b, 1)),
        cq(mk<T>(c.cnum == 0 ? 1 : c.cnum, c.cden < 1 ? 1 : c.cden)), cr(cq) {}
};
#define SAME(s, e, w)                                                                                                      \
  do {                                                                                                                     \
    long d_ = ref::first_diff(denote(s), (e));                                                                             \
    VCHECK(o_, d_ == -1, w << ": wrong result on interval " << d_ << " with an expression-template scalar type (mpq_class)"); \
  } while (0)

template <size_t o>
static void arith(const EtC &c, vf::Obs &o_) {
  Ctx<o> x(c);
  using Sp = bspline::Spline<T, o>;
  const auto &a = x.a; const auto &b = x.b; const auto &fa = x.fa; const auto &fb = x.fb; const T &cq = x.cq; const R &cr = x.cr;
  o_.cls("order:" + std::to_string(o)); o_.nt(c.a.e - c.a.s >= 2);
  SAME(a + b, ref::add(fa, fb), "a+b"); SAME(b + a, ref::add(fa, fb), "b+a"); SAME(a - b, ref::sub(fa, fb), "a-b"); SAME(b - a, ref::sub(fb, fa), "b-a"); SAME(a * b, ref::mul(fa, fb), "a*b");
  SAME(a * cq, ref::scale(fa, cr), "a*c"); SAME(cq * a, ref::scale(fa, cr), "c*a"); SAME(a / cq, ref::scale(fa, 1 / cr), "a/c"); SAME(-a, ref::scale(fa, R(-1)), "-a");
  { Sp t = a; t *= cq; SAME(t, ref::scale(fa, cr), "*="); t /= cq; SAME(t, fa, "*= then /="); Sp u = a; u /= cq; SAME(u, ref::scale(fa, 1 / cr), "/="); }
  if constexpr (o >= 1) { Sp t = a; t += b; SAME(t, ref::add(fa, fb), "+="); t -= b; t -= b; SAME(t, ref::sub(fa, fb), "-="); Sp u(x.grid); u = b; SAME(u, fb, "cross-order ="); }
  { std::vector<Sp> v{a, a, a}; std::vector<T> cf{cq, T(2), T(-1, 3)};
    SAME(bspline::linearCombination(cf, v), ref::scale(fa, cr + 2 - R(1, 3)), "linearCombination");
    SAME(bspline::linearCombination(cf.begin(), cf.end(), v.begin(), v.end()), ref::scale(fa, cr + 2 - R(1, 3)), "linearCombination(iterators)"); }
  VCHECK(o_, a.isZero() == ref::is_zero(fa), "isZero wrong");
}
template <size_t o>
static void evaluation(const EtC &c, vf::Obs &o_) {
  Ctx<o> x(c);
  const auto &a = x.a; const auto &fa = x.fa;
  o_.cls("order:" + std::to_string(o)); o_.nt(c.a.e - c.a.s >= 2);
  const auto &sup = a.getSupport();
  if (!sup.containsIntervals()) { T v = a(T(0)); VCHECK(o_, v == 0, "interval-free spline evaluates to non-zero"); return; }
  const size_t s = (size_t)c.a.s, e = (size_t)c.a.e;
  for (size_t j = s; j + 1 < e; j++) {
    R xr = (fa.grid[j] * 2 + fa.grid[j + 1]) / 3;
    T xt = xr; T v = a(xt);
    VCHECK(o_, v == ref::eval(fa.piece[j], xr), "evaluation inside interval " << j << " wrong");
    T g = fa.grid[j]; T vg = a(g);
    VCHECK(o_, vg == ref::eval(fa.piece[j], fa.grid[j]) || (j > s && vg == ref::eval(fa.piece[j - 1], fa.grid[j])), "evaluation at grid point " << j << " wrong");
  }
  { T g = fa.grid[e - 1]; T v = a(g); VCHECK(o_, v == ref::eval(fa.piece[e - 2], fa.grid[e - 1]), "evaluation at the right end wrong"); }
  { T lo = fa.grid[s] - R(1, 7), hi = fa.grid[e - 1] + R(1, 9); T v1 = a(lo), v2 = a(hi); VCHECK(o_, v1 == 0 && v2 == 0, "non-zero outside the closed support"); }
  { T f = a.front(), bk = a.back(); VCHECK(o_, f == fa.grid[s] && bk == fa.grid[e - 1], "front/back wrong"); }
}
template <size_t o>
static void operators(const EtC &c, vf::Obs &o_) {
  Ctx<o> x(c);
  const auto &a = x.a; const auto &b = x.b; const auto &fa = x.fa; const auto &fb = x.fb; const T &cq = x.cq; const R &cr = x.cr;
  o_.cls("order:" + std::to_string(o)); o_.nt(c.a.e - c.a.s >= 2);
  SAME(bo::IdentityOperator{} * a, fa, "I");
  SAME(bo::Dx<0>{} * a, fa, "Dx<0>"); SAME(bo::Dx<1>{} * a, ref::deriv(fa, 1), "Dx<1>"); SAME(bo::Dx<2>{} * a, ref::deriv(fa, 2), "Dx<2>"); SAME(bo::Dx<3>{} * a, ref::deriv(fa, 3), "Dx<3>");
  SAME(bo::X<0>{} * a, fa, "X<0>"); SAME(bo::X<1>{} * a, ref::mulx(fa, 1), "X<1>"); SAME(bo::X<2>{} * a, ref::mulx(fa, 2), "X<2>"); SAME(bo::X<3>{} * a, ref::mulx(fa, 3), "X<3>");
  SAME(bo::SplineOperator{b} * a, ref::mul(fb, fa), "SplineOperator");
  SAME((cq * bo::X<1>{}) * a, ref::scale(ref::mulx(fa, 1), cr), "c*O"); SAME((bo::X<1>{} * cq) * a, ref::scale(ref::mulx(fa, 1), cr), "O*c");
  SAME((bo::X<1>{} / cq) * a, ref::scale(ref::mulx(fa, 1), 1 / cr), "O/c"); SAME((bo::X<1>{} / 2) * a, ref::scale(ref::mulx(fa, 1), R(1, 2)), "O/int");
  SAME((bo::X<1>{} + cq) * a, ref::add(ref::mulx(fa, 1), ref::scale(fa, cr)), "O+c"); SAME((cq + bo::X<1>{}) * a, ref::add(ref::mulx(fa, 1), ref::scale(fa, cr)), "c+O");
  SAME((bo::X<1>{} - cq) * a, ref::sub(ref::mulx(fa, 1), ref::scale(fa, cr)), "O-c"); SAME((cq - bo::Dx<1>{}) * a, ref::sub(ref::scale(fa, cr), ref::deriv(fa, 1)), "c-O");
  SAME((3 - bo::X<1>{}) * a, ref::sub(ref::scale(fa, R(3)), ref::mulx(fa, 1)), "int-O");
  SAME((-bo::Dx<1>{}) * a, ref::scale(ref::deriv(fa, 1), R(-1)), "-O"); SAME((-(cq * bo::X<1>{})) * a, ref::scale(ref::mulx(fa, 1), -cr), "-(c*O)");
  SAME((bo::Dx<1>{} * bo::X<1>{} - bo::X<1>{} * bo::Dx<1>{}) * a, fa, "commutator");
  SAME((bo::Dx<1>{} + bo::X<2>{}) * a, ref::add(ref::deriv(fa, 1), ref::mulx(fa, 2)), "O+O");
  SAME((cq * (bo::SplineOperator{b} * bo::Dx<1>{}) - bo::X<1>{} / 3) * a, ref::sub(ref::scale(ref::mul(fb, ref::deriv(fa, 1)), cr), ref::scale(ref::mulx(fa, 1), R(1, 3))), "c*(v*Dx) - X/3");
  SAME(bo::transformSpline(bo::Dx<2>{}, a), ref::deriv(fa, 2), "transformSpline");
}
template <size_t o>
static void forms(const EtC &c, vf::Obs &o_) {
  Ctx<o> x(c);
  const auto &a = x.a; const auto &b = x.b; const auto &fa = x.fa; const auto &fb = x.fb; const T &cq = x.cq; const R &cr = x.cr;
  o_.cls("order:" + std::to_string(o)); o_.nt(c.a.e - c.a.s >= 2);
  auto is = [&](const T &got, const R &want, const char *w) { VCHECK(o_, got == want, w << ": " << got.get_str() << " instead of " << want.get_str() << " with an expression-template scalar type (mpq_class)"); };
  is(bi::ScalarProduct{}(a, b), ref::integral(ref::mul(fa, fb)), "ScalarProduct");
  is(bi::BilinearForm{}(b, a), ref::integral(ref::mul(fa, fb)), "BilinearForm{}");
  is(bi::BilinearForm{bo::X<1>{}}(a, b), ref::integral(ref::mul(fa, ref::mulx(fb, 1))), "BilinearForm{O2}");
  is(bi::BilinearForm{bo::X<1>{}, bo::Dx<1>{}}.evaluate(a, b), ref::integral(ref::mul(ref::mulx(fa, 1), ref::deriv(fb, 1))), "BilinearForm{O1,O2}");
  is(bi::BilinearForm{cq * bo::X<2>{}, bo::SplineOperator{b} - 2}(a, a), ref::integral(ref::mul(ref::scale(ref::mulx(fa, 2), cr), ref::sub(ref::mul(fb, fa), ref::scale(fa, R(2))))), "BilinearForm{c*X<2>, v-2}(a,a)");
  is(bi::LinearForm{}(a), ref::integral(fa), "LinearForm{}");
  is(bi::LinearForm{}.evaluate(b), ref::integral(fb), "LinearForm{}(b)");
  is(bi::LinearForm{bo::X<2>{}}.evaluate(a), ref::integral(ref::mulx(fa, 2)), "LinearForm{X<2>}");
  is(bi::LinearForm{bo::Dx<1>{}}(a), ref::integral(ref::deriv(fa, 1)), "LinearForm{Dx<1>}");
  is(bi::LinearForm{bo::SplineOperator{b} / cq + bo::X<1>{}}(a), ref::integral(ref::add(ref::scale(ref::mul(fb, fa), 1 / cr), ref::mulx(fa, 1))), "LinearForm{v/c + X}");
  is(bi::LinearForm{}(a * b), ref::integral(ref::mul(fa, fb)), "LinearForm{}(a*b)");
}
template <size_t o>
static void generator(const EtC &c, vf::Obs &o_) {
  // differential against the library instantiated with the plain archetype Q (decided by C01) + partition of unity
  auto grid = make_grid<T>(c.g);
  auto gridq = make_grid<Q>(c.g);
  std::vector<T> knots(grid.begin(), grid.end());
  std::vector<Q> knotsq(gridq.begin(), gridq.end());
  const size_t rep = (size_t)std::max<i64>(c.knotrep, 0) % (o + 3);  // repeat the first / an interior knot
  const size_t at = ((size_t)std::max<i64>(c.knotrep, 0) / 8) % knots.size();
  for (size_t k = 0; k < rep; k++) { knots.insert(knots.begin() + (long)at, knots[at]); knotsq.insert(knotsq.begin() + (long)at, knotsq[at]); }
  o_.cls("order:" + std::to_string(o)); o_.cls("repeat:" + std::to_string(rep)); o_.nt(knots.size() >= o + 2);
  if (knots.size() < o + 1) { o_.discard("too few knots"); return; }
  bspline::BSplineGenerator<T> g1(knots), g2(knots, grid);
  auto bs = g1.template generateBSplines<o>();
  auto bs2 = g2.template generateBSplines<o>();
  auto bs3 = bspline::generateBSplines<o>(knots);
  auto bq = bspline::generateBSplines<o>(knotsq);
  VCHECK(o_, bs.size() == knots.size() - o - 1 && bs.size() == bq.size(), "wrong number of basis functions");
  VCHECK(o_, bs == bs2 && bs == bs3, "generator routes disagree");
  for (size_t i = 0; i < bs.size(); i++) { long d = ref::first_diff(denote(bs[i]), denote(bq[i])); VCHECK(o_, d == -1, "basis function " << i << " differs on interval " << d << " between mpq_class and the plain exact scalar"); }
  ref::Fn sum(model_of(c.g, c.a, 0).grid);
  for (const auto &s : bs) sum = ref::add(sum, denote(s));
  std::vector<R> kr(knots.begin(), knots.end());
  for (size_t j = 0; j + 1 < sum.grid.size(); j++) {
    if (kr.size() < 2 * o + 2 || !(sum.grid[j] >= kr[o] && sum.grid[j + 1] <= kr[kr.size() - o - 1])) continue;
    VCHECK(o_, ref::equal(sum.piece[j], ref::Poly{R(1)}), "partition of unity violated on interval " << j);
  }
}
template <size_t o>
static void interpolation(const EtC &c, vf::Obs &o_) {
  if constexpr (o >= 1) {
    Ctx<o> x(c);
    const auto &sup = x.a.getSupport();
    o_.cls("order:" + std::to_string(o)); o_.nt(sup.size() >= 3);
    if (sup.size() < 2) { o_.discard("fewer than two abscissae"); return; }
    std::vector<T> y;
    for (size_t i = 0; i < sup.size(); i++) y.push_back(mk<T>((i64)((i * i * 3 + (size_t)std::abs(c.cnum)) % 11) - 5, c.cden < 1 ? 1 : c.cden));
    try {
      auto s = ip::interpolate<T, o, EtSolver>(sup, y);
      VCHECK(o_, s.getSupport() == sup, "interpolant does not live on the given window");
      ref::Fn f = denote(s);
      const size_t s0 = sup.getStartIndex();
      for (size_t i = 0; i < sup.size(); i++) {
        R xi = f.grid[s0 + i];
        if (i + 1 < sup.size()) VCHECK(o_, ref::eval(f.piece[s0 + i], xi) == y[i], "interpolant misses the ordinate at node " << i << " (right piece)");
        if (i > 0) VCHECK(o_, ref::eval(f.piece[s0 + i - 1], xi) == y[i], "interpolant misses the ordinate at node " << i << " (left piece)");
        if (i > 0 && i + 1 < sup.size())
          for (size_t d = 1; d < o; d++) VCHECK(o_, ref::eval(ref::deriv(f.piece[s0 + i - 1], d), xi) == ref::eval(ref::deriv(f.piece[s0 + i], d), xi), "derivative " << d << " discontinuous at node " << i);
      }
      // default boundary conditions: derivatives 1, 1, 2, 2, ... vanish alternately at the first and the last node
      for (size_t k = 0; k + 1 < o; k++) {
        size_t d = k / 2 + 1;
        bool first = k % 2 == 0;
        R xe = first ? f.grid[s0] : f.grid[s0 + sup.size() - 1];
        const ref::Poly &p = first ? f.piece[s0] : f.piece[s0 + sup.size() - 2];
        VCHECK(o_, ref::eval(ref::deriv(p, d), xe) == 0, "default boundary condition (derivative " << d << (first ? " at the first" : " at the last") << " node) not met");
      }
    } catch (const EtSingular &) { o_.cls("interpolation-singular"); }
  } else {
    o_.discard("order 0");
  }
}
#define DISPATCH(fn) [](const EtC &c, vf::Obs &o) { with_order<4>((size_t)std::min<i64>(std::max<i64>(c.order, 0), 4), [&](auto O) { fn<decltype(O)::value>(c, o); }); }

int main(int argc, char **argv) {
  auto gen = rc::gen::exec([] {
    EtC c;
    GridOpt go; go.max_n = 8;
    c.g = gen_grid(go);
    c.order = pick(0, 4);
    c.a = gen_spline(c.g.n(), 4, chance(60) ? W_GENERAL : -1);
    c.b = gen_spline(c.g.n(), 1);
    c.cnum = pick(-7, 7); if (c.cnum == 0) c.cnum = 2; c.cden = one_of<i64>({1, 2, 3});
    c.knotrep = pick(0, 63);
    return c;
  });
  vf::add_sub<EtC>("et-arith", 500, gen, DISPATCH(arith));
  vf::add_sub<EtC>("et-eval", 500, gen, DISPATCH(evaluation));
  vf::add_sub<EtC>("et-operators", 400, gen, DISPATCH(operators));
  vf::add_sub<EtC>("et-forms", 400, gen, DISPATCH(forms));
  vf::add_sub<EtC>("et-generator", 300, gen, DISPATCH(generator));
  vf::add_sub<EtC>("et-interpolation", 300, gen, DISPATCH(interpolation));
  return vf::main_impl(argc, argv, "C19");
}
