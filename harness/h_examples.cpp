// C20 -- the shipped example solvers are well-defined programs and solve their
// problems. The example sources are compiled from /repo/examples into
// libexamples_dbg.so (-D_GLIBCXX_DEBUG, ASan, UBSan) behind a C-ABI shim.
// Oracle: no sanitizer / checked-STL report (process death) and the
// metamorphic relations of the statement, with calibrated tolerances.
#include "common/report.h"

#include <cmath>

extern "C" {
int ex_diffusion(const double *grid, int n, int ws, int we, const double *dcoef, double start, double end, const double *xs, int nx, double *out, double *front, double *back, char *err, int errlen);
int ex_spline_potential(const double *grid, int n, double a, double b, double w, double d, double c1, double c2, int ws, int we, double *eig10, char *err, int errlen);
int ex_harmonic(double *eig10, char *err, int errlen);
int ex_hydrogen(double *eig10, char *err, int errlen);
int ex_hydrogen_L();
}
using i64 = int64_t;
static i64 pick(i64 lo, i64 hi) { return *rc::gen::resize(100, rc::gen::inRange<i64>(lo, hi + 1)); }
static bool chance(int p) { return pick(0, 99) < p; }

// ------------------------------------------------------------- diffusion
struct DiffC {
  std::vector<i64> gaps;   // grid: x0 = off/8, gaps/8
  i64 off = 0, ws = 0, we = 0;
  std::vector<i64> dnum;   // diffusion coefficient per interval = dnum/8 in [1/8, 8]
  i64 start = 0, end = 1;  // boundary values /4
  i64 scale_num = 2, scale_den = 1, scale_exp = 0;  // scale factor = scale_num/scale_den * 2^scale_exp
  template <class A>
  void io(A &a) { a("gaps", gaps); a("off", off); a("ws", ws); a("we", we); a("dnum", dnum); a("start", start); a("end", end); a("scale_num", scale_num); a("scale_den", scale_den); a("scale_exp", scale_exp); }
};
static void check_diffusion(const DiffC &c, vf::Obs &o) {
  std::vector<double> g{(double)c.off / 8.0};
  for (auto gp : c.gaps) g.push_back(g.back() + (double)std::max<i64>(1, gp) / 8.0);
  int n = (int)g.size();
  int ws = (int)std::max<i64>(0, std::min<i64>(c.ws, n - 2)), we = (int)std::max<i64>(ws + 2, std::min<i64>(c.we, n));
  bool whole = ws == 0 && we == n;
  int nint = we - ws - 1;
  std::vector<double> d(nint), dc(nint), d1(nint, 1.0);
  double sc = std::ldexp((double)std::max<i64>(1, c.scale_num) / (double)std::max<i64>(1, c.scale_den), (int)std::max<i64>(-200, std::min<i64>(200, c.scale_exp)));
  if (c.scale_exp != 0) o.cls("scale:extreme");
  for (int i = 0; i < nint; i++) { i64 v = c.dnum.empty() ? 8 : c.dnum[(size_t)i % c.dnum.size()]; d[i] = (double)std::min<i64>(64, std::max<i64>(1, v)) / 8.0; dc[i] = d[i] * sc; }
  double start = (double)c.start / 4.0, end = (double)c.end / 4.0;
  std::vector<double> xs;
  for (int i = ws; i < we; i++) { xs.push_back(g[i]); if (i + 1 < we) { xs.push_back(g[i] + (g[i + 1] - g[i]) * 0.25); xs.push_back(g[i] + (g[i + 1] - g[i]) * 0.7); } }
  std::vector<double> u(xs.size()), uc(xs.size()), ul(xs.size());
  double f = 0, b = 0, f2 = 0, b2 = 0;
  char err[256] = {0};
  o.cls(whole ? "window:whole-grid" : "window:strict-sub");
  o.cls("nodes:" + std::to_string(std::min(n, 12)));
  int rc1 = ex_diffusion(g.data(), n, ws, we, d.data(), start, end, xs.data(), (int)xs.size(), u.data(), &f, &b, err, sizeof err);
  VCHECK(o, rc1 == 0 || rc1 == 1, "diffusion solver threw a foreign exception: " << err);
  if (!whole) {
    // documented outcome for a coefficient spline that does not span its grid: the generator refuses the grid
    VCHECK(o, rc1 == 1, "sub-window diffusion coefficient: expected a clean BSplineException rejection, got rc=" << rc1);
    o.cls("clean-rejection");
    o.nt(true);
    return;
  }
  VCHECK(o, rc1 == 0, "admissible diffusion problem was rejected: " << err);
  double scale = std::max(1.0, std::max(std::fabs(start), std::fabs(end)));
  o.nt(n >= 3 || start != end);
  VCHECK(o, f == g[0] && b == g[n - 1], "solution support is not the domain");
  auto rel = [&](double x) { return std::fabs(x) / scale; };
  double e1 = std::max(rel(u.front() - start), rel(u.back() - end));
  vf::metric_max("diffusion:end-value-error/scale", e1);
  VCHECK(o, e1 <= 1e-9, "concentration does not attain the prescribed end values: u(front)=" << u.front() << " (want " << start << "), u(back)=" << u.back() << " (want " << end << ")");
  // scaling the diffusion coefficient by a positive constant leaves the solution unchanged
  int rc2 = ex_diffusion(g.data(), n, ws, we, dc.data(), start, end, xs.data(), (int)xs.size(), uc.data(), &f2, &b2, err, sizeof err);
  VCHECK(o, rc2 == 0, "scaled problem rejected: " << err);
  double e2 = 0;
  for (size_t i = 0; i < xs.size(); i++) e2 = std::max(e2, rel(u[i] - uc[i]));
  vf::metric_max("diffusion:scale-invariance-error/scale", e2);
  VCHECK(o, e2 <= 1e-7, "solution changes by " << e2 << " (relative) when the diffusion coefficient is scaled by " << sc);
  // constant coefficient: straight line
  int rc3 = ex_diffusion(g.data(), n, ws, we, d1.data(), start, end, xs.data(), (int)xs.size(), ul.data(), &f2, &b2, err, sizeof err);
  VCHECK(o, rc3 == 0, "constant-coefficient problem rejected: " << err);
  double e3 = 0;
  for (size_t i = 0; i < xs.size(); i++) e3 = std::max(e3, rel(ul[i] - (start + (end - start) * (xs[i] - g[0]) / (g[n - 1] - g[0]))));
  vf::metric_max("diffusion:straight-line-error/scale", e3);
  VCHECK(o, e3 <= 1e-7, "constant coefficient: solution deviates from the straight line by " << e3 << " (relative)");
}

// ------------------------------------------------------- spline potential
struct PotC {
  i64 n = 21, half_width = 40;  // grid on [-hw/8, hw/8]
  std::vector<i64> jitter;      // per interior point, in 1/64 of the uniform gap
  i64 a = 4, b = 0, w = 8, d = 0;  // potential a/8 x^2 + b/8 sin(w/8 x) + d/8
  i64 c = 0, mode = 0;             // constant c/4 added before interpolation (mode 0) or as a constant spline (mode 1)
  i64 ws = 0, we = 0;              // potential restricted to the window [ws,we) of the grid (we = 0: whole grid); forces mode 1
  template <class A>
  void io(A &x) { x("n", n); x("half_width", half_width); x("jitter", jitter); x("a", a); x("b", b); x("w", w); x("d", d); x("c", c); x("mode", mode); x("ws", ws); x("we", we); }
};
static void check_potential(const PotC &c, vf::Obs &o) {
  int n = (int)std::min<i64>(41, std::max<i64>(21, c.n));
  double hw = (double)std::max<i64>(16, c.half_width) / 8.0, gap = 2 * hw / (n - 1);
  std::vector<double> g(n);
  for (int i = 0; i < n; i++) {
    double j = (i == 0 || i == n - 1 || c.jitter.empty()) ? 0.0 : (double)(c.jitter[(size_t)i % c.jitter.size()] % 20) / 64.0;
    g[i] = -hw + gap * ((double)i + j);
  }
  double a = (double)c.a / 8.0, b = (double)c.b / 8.0, w = (double)c.w / 8.0, d = (double)c.d / 8.0, cc = (double)c.c / 4.0;
  double e0[10], e1[10];
  char err[256] = {0};
  int ws = 0, we = n;
  if (c.we > 0) { ws = (int)std::max<i64>(0, std::min<i64>(c.ws, n - 2)); we = (int)std::max<i64>(ws + 2, std::min<i64>(c.we, n)); }
  bool restricted = ws > 0 || we < n;
  if (restricted) o.cls(we < n ? "potential:ends-before-the-last-grid-point" : "potential:starts-late");
  int r0 = ex_spline_potential(g.data(), n, a, b, w, d, 0.0, 0.0, ws, we, e0, err, sizeof err);
  VCHECK(o, r0 == 0, "spline-potential solver failed on an admissible input (rc " << r0 << "): " << err);
  int r1 = (c.mode == 0 && !restricted) ? ex_spline_potential(g.data(), n, a, b, w, d, cc, 0.0, ws, we, e1, err, sizeof err) : ex_spline_potential(g.data(), n, a, b, w, d, 0.0, cc, ws, we, e1, err, sizeof err);
  VCHECK(o, r1 == 0, "spline-potential solver failed on the shifted potential (rc " << r1 << "): " << err);
  o.cls((c.mode == 0 && !restricted) ? "constant:before-interpolation" : "constant:as-spline");
  o.cls("nodes:" + std::to_string(n));
  o.nt(cc != 0.0);
  double worst = 0;
  for (int i = 0; i < 10; i++) {
    VCHECK(o, std::isfinite(e0[i]) && std::isfinite(e1[i]), "non-finite eigenvalue");
    if (i > 0) VCHECK(o, e0[i] >= e0[i - 1], "eigenvalues not sorted");
    double tol = 1e-7 * (1.0 + std::fabs(cc) + std::fabs(e0[i]));
    double dev = std::fabs(e1[i] - e0[i] - cc);
    worst = std::max(worst, dev / (1.0 + std::fabs(cc) + std::fabs(e0[i])));
    VCHECK(o, dev <= tol, "eigenvalue " << i << " shifts by " << (e1[i] - e0[i]) << " instead of c = " << cc << " (lambda = " << e0[i] << ")");
  }
  vf::metric_max("spline-potential:shift-error/(1+|c|+|lambda|)", worst);
}

// ------------------------------------------- harmonic oscillator / hydrogen
struct OnceC {
  i64 which = 0;
  template <class A>
  void io(A &a) { a("which", which); }
};
static void check_once(const OnceC &c, vf::Obs &o) {
  double e[10];
  char err[256] = {0};
  o.nt(true);
  if (c.which == 0) {
    int r = ex_harmonic(e, err, sizeof err);
    VCHECK(o, r == 0, "harmonic oscillator solver failed: " << err);
    for (int i = 0; i < 10; i++) {
      double an = (2.0 * i + 1.0) / 2.0;
      vf::metric_max("harmonic-oscillator:relative-error", std::fabs((e[i] - an) / an));
      VCHECK(o, std::fabs((e[i] - an) / an) <= 1e-12, "harmonic oscillator level " << i << " = " << e[i] << ", expected n+1/2 = " << an);
    }
    o.cls("harmonic-oscillator");
  } else {
    int r = ex_hydrogen(e, err, sizeof err);
    VCHECK(o, r == 0, "hydrogen solver failed: " << err);
    int L = ex_hydrogen_L();
    for (int i = 0; i < 10; i++) {
      double nn = (double)(i + L + 1), an = -1.0 / (nn * nn);
      vf::metric_max("hydrogen:relative-error", std::fabs((e[i] - an) / an));
      VCHECK(o, std::fabs((e[i] - an) / an) <= 5e-12, "hydrogen level " << i << " = " << e[i] << ", expected -1/n^2 = " << an);
    }
    o.cls("hydrogen");
  }
}

int main(int argc, char **argv) {
  vf::ctx().no_twin = true;  // expensive cases: no twin prelude
  vf::add_sub<DiffC>("diffusion", 500, rc::gen::exec([] {
    DiffC c;
    int n = (int)pick(2, 12);
    int kind = (int)pick(0, 2);
    for (int i = 0; i + 1 < n; i++) c.gaps.push_back(kind == 2 ? (chance(50) ? 1 : pick(8, 40)) : pick(1, 16));
    c.off = pick(-64, 32);
    if (chance(85)) { c.ws = 0; c.we = n; } else { c.ws = pick(0, n - 2); c.we = pick(c.ws + 2, n); }
    bool constant = chance(15);
    i64 cv = pick(1, 64);
    for (int i = 0; i + 1 < n; i++) c.dnum.push_back(constant ? cv : pick(1, 64));
    c.start = pick(-40, 40); c.end = pick(-40, 40);
    if (chance(60)) { c.scale_num = (i64)1 << pick(0, 6); c.scale_den = (i64)1 << pick(0, 6); } else { c.scale_num = pick(1, 97); c.scale_den = pick(1, 13); }
    if (chance(25)) c.scale_exp = chance(50) ? pick(-160, -20) : pick(20, 160);  // any positive constant: also 1e-48 .. 1e48
    return c; }), check_diffusion);
  vf::add_sub<PotC>("spline-potential", 30, rc::gen::exec([] {
    PotC c;
    c.n = pick(21, 41); c.half_width = pick(24, 64);
    for (int i = 0; i < 8; i++) c.jitter.push_back(pick(-19, 19));
    c.a = pick(1, 16); c.b = pick(-8, 8); c.w = pick(1, 24); c.d = pick(-16, 16);
    c.c = chance(20) ? (chance(50) ? 4000 : -4000) : pick(-400, 400);
    c.mode = pick(0, 1);
    if (chance(45)) { c.ws = chance(50) ? 0 : pick(1, c.n / 2); c.we = chance(70) ? pick(c.ws + 3, c.n - 1) : c.n; }  // step / well / barrier potentials
    return c; }), check_potential);
  vf::add_enum_sub("harmonic-and-hydrogen",
      [](vf::Sub &s, double) {
        for (i64 w = 0; w < 2; w++) {
          OnceC c; c.which = w;
          vf::ctx().cur_case = vf::to_text(c);
          vf::Obs o;
          check_once(c, o);
          if (!vf::emit(s, vf::to_text(c), o)) return;
        }
      },
      [](const std::string &t, vf::Obs &o) { check_once(vf::from_text<OnceC>(t), o); });
  return vf::main_impl(argc, argv, "C20");
}
