// C19 (thorough) -- scalar types the README advertises: boost::multiprecision
// cpp_rational (exact: must agree with the Q run exactly) and
// cpp_bin_float_quad (must agree to ~1e-28 relative to the magnitude involved).
#include <boost/multiprecision/cpp_bin_float.hpp>
#include <boost/multiprecision/cpp_int.hpp>

#include "common/cases.h"

using namespace vc;
namespace bo = bspline::operators;
namespace bi = bspline::integration;
using Rat = boost::multiprecision::cpp_rational;
using Quad = boost::multiprecision::cpp_bin_float_quad;

namespace vc {
template <>
struct Scalar<Rat> {
  static Rat make(i64 n, i64 d) { return Rat(n, d); }
  static R exact(const Rat &v) { R r(v.str()); r.canonicalize(); return r; }
  static constexpr const char *name = "cpp_rational";
};
template <>
struct Scalar<Quad> {
  static Quad make(i64 n, i64 d) { return Quad(n) / Quad(d); }
  static R exact(const Quad &v) {  // exact conversion through the binary representation
    if (v == 0) return R(0);
    int e = 0;
    Quad m = frexp(v, &e);  // |m| in [0.5,1)
    bool neg = m < 0; if (neg) m = -m;
    m = ldexp(m, 113);
    boost::multiprecision::cpp_int z(m);
    R r{mpz_class(z.str())};
    if (e - 113 >= 0) r <<= (unsigned long)(e - 113); else r >>= (unsigned long)(113 - e);
    return neg ? R(-r) : r;
  }
  static constexpr const char *name = "cpp_bin_float_quad";
};
}  // namespace vc

struct BC {
  GridC g;
  SplineC a, b;
  i64 oa = 0, type = 0;
  template <class A>
  void io(A &x) { x("g", g); x("a", a); x("b", b); x("oa", oa); x("type", type); }
};
static R absq(const R &r) { return r < 0 ? R(-r) : r; }
template <class T, size_t oa>
static void run(const BC &c, vf::Obs &o) {
  constexpr bool ex = std::is_same_v<T, Rat>;
  auto grid = make_grid<T>(c.g);
  auto a = make_spline<T, oa>(grid, c.a);
  auto b = make_spline<T, 1>(grid, c.b);
  ref::Fn fa = model_of(c.g, c.a, oa), fb = model_of(c.g, c.b, 1);
  o.cls(std::string("type:") + Scalar<T>::name);
  o.nt(c.a.e - c.a.s >= 2);
  R tol = ex ? R(0) : R(1, 1000000) * R(1, 1000000) * R(1, 1000000) * R(1, 1000000);  // 1e-24 absolute per unit magnitude
  auto close = [&](const R &got, const R &want, const R &mag, const char *w) {
    VCHECK(o, absq(got - want) <= tol * (1 + mag), w << ": " << got.get_d() << " vs exact " << want.get_d());
  };
  auto same = [&](const auto &s, const ref::Fn &e, const char *w) {
    ref::Fn got = denote(s);
    for (size_t j = 0; j < e.nint(); j++) {
      ref::Poly d = ref::sub(got.piece[j], e.piece[j]);
      R mag(0), err(0);
      for (auto &v : e.piece[j]) mag += absq(v) * 4096;  // absolute-basis coefficients amplify by |x|^k <= 8^4
      for (auto &v : d) err += absq(v);
      VCHECK(o, err <= tol * (1 + mag) * 4096, w << ": differs on interval " << j);
    }
  };
  same(a + b, ref::add(fa, fb), "a+b"); same(a * b, ref::mul(fa, fb), "a*b"); same(a / mk<T>(3, 2), ref::scale(fa, R(2, 3)), "a/c");
  same((bo::X<1>{} * bo::Dx<1>{} - 3 * bo::X<2>{} + mk<T>(1, 2)) * a, ref::add(ref::sub(ref::mulx(ref::deriv(fa, 1), 1), ref::scale(ref::mulx(fa, 2), R(3))), ref::scale(fa, R(1, 2))), "expression");
  same(bo::SplineOperator{b} * a, ref::mul(fb, fa), "SplineOperator");
  R mag = 0;
  for (auto &p : fa.piece) for (auto &v : p) mag += absq(v) * 4096;
  close(exact(bi::LinearForm{bo::X<1>{}}(a)), ref::integral(ref::mulx(fa, 1)), mag * 64, "LinearForm");
  close(exact(bi::BilinearForm{bo::Dx<1>{}, bo::X<1>{}}(a, b)), ref::integral(ref::mul(ref::deriv(fa, 1), ref::mulx(fb, 1))), mag * mag * 64, "BilinearForm");
  std::vector<T> knots(grid.begin(), grid.end());
  knots.insert(knots.begin(), knots.front());
  if (knots.size() >= 4) {
    auto bs = bspline::generateBSplines<2>(knots);
    VCHECK(o, bs.size() == knots.size() - 3, "generator count");
    ref::Fn sum(fa.grid);
    for (const auto &s : bs) sum = ref::add(sum, denote(s));
    std::vector<R> kr;
    for (const auto &k : knots) kr.push_back(exact(k));
    for (size_t j = 0; j + 1 < fa.grid.size(); j++) {
      if (!(fa.grid[j] >= kr[2] && fa.grid[j + 1] <= kr[kr.size() - 3])) continue;  // inside [t_p, t_{m-p-1}]
      ref::Poly d = ref::sub(sum.piece[j], ref::Poly{R(1)});
      R err(0);
      for (auto &v : d) err += absq(v);
      VCHECK(o, err <= tol * 1000000, "partition of unity off on interval " << j);
    }
  }
}
static void check(const BC &c, vf::Obs &o) {
  with_order<3>((size_t)std::min<i64>(std::max<i64>(c.oa, 0), 3), [&](auto A) {
    if (c.type == 0) run<Rat, decltype(A)::value>(c, o); else run<Quad, decltype(A)::value>(c, o);
  });
}
int main(int argc, char **argv) {
  auto gen = rc::gen::exec([] {
    BC c;
    c.type = pick(0, 1);
    GridOpt go; go.dyadic = true; go.max_abs = 8; go.max_n = 7;
    c.g = gen_grid(go);
    c.oa = pick(0, 3);
    CoefOpt co; co.dyadic = true; co.max_num = 8;
    c.a = gen_spline(c.g.n(), 3, -1, co); c.b = gen_spline(c.g.n(), 1, -1, co);
    return c;
  });
  vf::add_sub<BC>("boost-multiprecision", 400, gen, check);
  return vf::main_impl(argc, argv, "C19");
}
