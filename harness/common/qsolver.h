// Exact ISolver<Q>: Gaussian elimination over the rationals. An exactly
// singular system raises the harness's own Singular (never a library exception).
#ifndef VERIF_QSOLVER_H
#define VERIF_QSOLVER_H
#include <bspline/interpolation/interpolation.h>

#include "q.h"
#include "ref.h"
namespace vc {
struct Singular : std::runtime_error {
  Singular() : std::runtime_error("singular interpolation system") {}
};
class QSolver final : public bspline::interpolation::internal::ISolver<Q> {
  size_t n_;
  std::vector<Q> Mq_, bq_, xq_;

 public:
  explicit QSolver(size_t n) : n_(n), Mq_(n * n, Q(0)), bq_(n, Q(0)), xq_(n, Q(0)) {}
  Q &M(size_t i, size_t j) override { return Mq_.at(i * n_ + j); }
  Q &b(size_t i) override { return bq_.at(i); }
  Q &x(size_t i) override { return xq_.at(i); }
  void solve() override {
    using ref::R;
    std::vector<std::vector<R>> A(n_, std::vector<R>(n_ + 1));
    for (size_t i = 0; i < n_; i++) {
      for (size_t j = 0; j < n_; j++) A[i][j] = vq::raw(Mq_[i * n_ + j]);
      A[i][n_] = vq::raw(bq_[i]);
    }
    for (size_t col = 0; col < n_; col++) {
      size_t piv = col;
      while (piv < n_ && A[piv][col] == 0) piv++;
      if (piv == n_) throw Singular();
      std::swap(A[piv], A[col]);
      for (size_t r = 0; r < n_; r++) {
        if (r == col || A[r][col] == 0) continue;
        R f = A[r][col] / A[col][col];
        for (size_t k = col; k <= n_; k++) A[r][k] -= f * A[col][k];
      }
    }
    for (size_t i = 0; i < n_; i++) xq_[i] = vq::make(A[i][n_] / A[i][i]);
  }
};
}  // namespace vc
#endif
