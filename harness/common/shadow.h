// Absolute-value shadows (DESIGN 6.6): polynomials in u = |x - xm| with
// non-negative coefficients, used as the normaliser of floating-point errors.
#ifndef VERIF_SHADOW_H
#define VERIF_SHADOW_H
#include "ref.h"
namespace vc {
using ref::R;
using Sh = std::vector<R>;
inline R absr(const R &r) { return r < 0 ? R(-r) : r; }
inline Sh sh_abs(const std::vector<R> &c) { Sh s; for (auto &v : c) s.push_back(absr(v)); return s; }
inline Sh sh_add(const Sh &a, const Sh &b) { Sh r(std::max(a.size(), b.size()), R(0)); for (size_t i = 0; i < a.size(); i++) r[i] += a[i]; for (size_t i = 0; i < b.size(); i++) r[i] += b[i]; return r; }
inline Sh sh_mul(const Sh &a, const Sh &b) { if (a.empty() || b.empty()) return {}; Sh r(a.size() + b.size() - 1, R(0)); for (size_t i = 0; i < a.size(); i++) for (size_t j = 0; j < b.size(); j++) r[i + j] += a[i] * b[j]; return r; }
inline Sh sh_scale(const Sh &a, const R &c) { Sh r(a); for (auto &v : r) v *= absr(c); return r; }
inline Sh sh_dx(const Sh &a, size_t n) { Sh r; for (size_t i = 0; i + n < a.size(); i++) { R f(1); for (size_t k = 1; k <= n; k++) f *= R((long)(i + k)); r.push_back(f * a[i + n]); } if (r.empty()) r.push_back(R(0)); return r; }
inline Sh sh_x(const Sh &a, size_t n, const R &xmabs) { Sh r(a); Sh lin{xmabs, R(1)}; for (size_t k = 0; k < n; k++) r = sh_mul(r, lin); return r; }
inline R sh_sum(const Sh &a, const R &h) { R s(0), p(1); for (auto &v : a) { s += v * p; p *= h; } return s; }
inline R sh_integral(const Sh &a, const R &h) {  // integral of sum a_k |u|^k over [-h,h]
  R s(0), p(h);
  for (size_t k = 0; k < a.size(); k++) { s += 2 * a[k] * p / R((long)(k + 1)); p *= h; }
  return s;
}
}  // namespace vc
#endif
