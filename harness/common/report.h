// Harness framework: sub-check registry, rapidcheck driving, classification
// counters, distinct/non-trivial accounting, replay files, JSON result, and a
// sanitizer death callback that saves the case being executed.
#ifndef VERIF_REPORT_H
#define VERIF_REPORT_H
#include <rapidcheck.h>
#include <unistd.h>

#include <chrono>
#include <csignal>
#include <cstdint>
#include <cstdio>
#include <cstring>
#include <fstream>
#include <functional>
#include <iostream>
#include <map>
#include <sstream>
#include <string>
#include <unordered_set>
#include <vector>

extern "C" void __sanitizer_set_death_callback(void (*)(void)) __attribute__((weak));

namespace vf {

// ---------------------------------------------------------------- text io
// Cases are plain structs of int64 / vectors / nested structs that expose
//   template <class A> void io(A &a) { a("name", field); ... }
struct Writer {
  std::ostringstream os;
  void operator()(const char *n, const int64_t &v) { os << n << "=" << v << " "; }
  void operator()(const char *n, const std::vector<int64_t> &v) {
    os << n << "=[ ";
    for (auto x : v) os << x << " ";
    os << "] ";
  }
  template <class S>
  auto operator()(const char *n, const S &s) -> decltype(const_cast<S &>(s).io(*this), void()) {
    os << n << "={ ";
    const_cast<S &>(s).io(*this);
    os << "} ";
  }
  template <class S>
  auto operator()(const char *n, const std::vector<S> &v)
      -> decltype(const_cast<S &>(v[0]).io(*this), void()) {
    os << n << "=[ ";
    for (const auto &s : v) {
      os << "{ ";
      const_cast<S &>(s).io(*this);
      os << "} ";
    }
    os << "] ";
  }
};
struct ParseError : std::runtime_error {
  using std::runtime_error::runtime_error;
};
struct Reader {
  std::vector<std::string> tok;
  size_t pos = 0;
  explicit Reader(const std::string &s) {
    std::istringstream is(s);
    std::string t;
    while (is >> t) tok.push_back(t);
  }
  std::string next() {
    if (pos >= tok.size()) throw ParseError("unexpected end of case text");
    return tok[pos++];
  }
  std::string peek() const { return pos < tok.size() ? tok[pos] : std::string(); }
  static std::string after_eq(const std::string &t) {
    auto p = t.find('=');
    if (p == std::string::npos) throw ParseError("expected name=value, got " + t);
    return t.substr(p + 1);
  }
  void operator()(const char *, int64_t &v) { v = std::stoll(after_eq(next())); }
  void operator()(const char *, std::vector<int64_t> &v) {
    if (after_eq(next()) != "[") throw ParseError("expected [");
    v.clear();
    while (peek() != "]") v.push_back(std::stoll(next()));
    next();
  }
  template <class S>
  auto operator()(const char *, S &s) -> decltype(s.io(*this), void()) {
    if (after_eq(next()) != "{") throw ParseError("expected {");
    s.io(*this);
    if (next() != "}") throw ParseError("expected }");
  }
  template <class S>
  auto operator()(const char *, std::vector<S> &v) -> decltype(v[0].io(*this), void()) {
    if (after_eq(next()) != "[") throw ParseError("expected [");
    v.clear();
    while (peek() != "]") {
      if (next() != "{") throw ParseError("expected {");
      S s;
      s.io(*this);
      if (next() != "}") throw ParseError("expected }");
      v.push_back(std::move(s));
    }
    next();
  }
};
template <class C>
std::string to_text(const C &c) {
  Writer w;
  const_cast<C &>(c).io(w);
  std::string s = w.os.str();
  if (!s.empty() && s.back() == ' ') s.pop_back();
  return s;
}
template <class C>
C from_text(const std::string &s) {
  Reader r(s);
  C c;
  c.io(r);
  return c;
}
// ---------------------------------------------------------------- twin prelude
// A "twin" of a case has the same structure (sizes, windows, orders, operation codes) but other grid points. Running the
// check on the twin FIRST - all its objects die before the real case is built - gives every harness the history
// "the same template instantiations were used a moment ago on another grid of equal size, which is gone now": state
// that the library keeps across calls (keyed by sizes, interval indices or raw addresses, which the allocator hands out
// again at once in the zero-quarantine process) then meets the real case. The twin's own verdict is ignored.
template <class S, class = void>
struct TwinHook {
  static void apply(S &) {}
};
struct Twinner {
  void operator()(const char *, int64_t &) {}
  void operator()(const char *, std::vector<int64_t> &) {}
  template <class S>
  auto operator()(const char *, S &s) -> decltype(s.io(*this), void()) {
    TwinHook<S>::apply(s);
    s.io(*this);
  }
  template <class S>
  auto operator()(const char *, std::vector<S> &v) -> decltype(v[0].io(*this), void()) {
    for (auto &s : v) {
      TwinHook<S>::apply(s);
      s.io(*this);
    }
  }
};
template <class C>
bool make_twin(C &c) {
  std::string before = to_text(c);
  Twinner t;
  TwinHook<C>::apply(c);
  c.io(t);
  return to_text(c) != before;
}

inline uint64_t fnv(const std::string &s) {
  uint64_t h = 1469598103934665603ull;
  for (unsigned char ch : s) {
    h ^= ch;
    h *= 1099511628211ull;
  }
  return h;
}
inline std::string jesc(const std::string &s) {
  std::string o;
  for (char ch : s) {
    switch (ch) {
      case '"': o += "\\\""; break;
      case '\\': o += "\\\\"; break;
      case '\n': o += "\\n"; break;
      case '\t': o += "\\t"; break;
      default:
        if ((unsigned char)ch < 0x20) {
          char b[8];
          snprintf(b, sizeof b, "\\u%04x", ch);
          o += b;
        } else
          o += ch;
    }
  }
  return o;
}

// ---------------------------------------------------------------- observation
struct Obs {
  bool failed = false;
  std::string why;
  bool nontrivial = false;
  bool discarded = false;
  std::vector<std::string> classes;
  void fail(const std::string &w) {
    if (!failed) {
      failed = true;
      why = w;
    }
  }
  void cls(const std::string &c) { classes.push_back(c); }
  void nt(bool b = true) { nontrivial = nontrivial || b; }
  void discard(const std::string &r) {
    discarded = true;
    classes.push_back("discard:" + r);
  }
};
#define VCHECK(o, cond, msg)        \
  do {                              \
    if (!(cond)) {                  \
      std::ostringstream vcheck_os; \
      vcheck_os << msg;             \
      (o).fail(vcheck_os.str());    \
      return;                       \
    }                               \
  } while (0)

struct SubStats {
  uint64_t evaluations = 0, discarded = 0, nontrivial = 0;
  std::unordered_set<uint64_t> distinct_nt;
  std::map<std::string, uint64_t> classes;
  std::vector<std::string> samples;
  std::string longest;
  bool failed = false;
  std::string fail_case, fail_why, fail_repro;
  double wall = 0;
};

struct Sub {
  std::string name;
  int cases;
  std::function<void(Sub &, uint64_t seed, double scale, int max_size)> run;
  std::function<void(const std::string &, Obs &)> replay;
  SubStats st;
};

struct Ctx {
  std::string property = "?";
  std::string replay_dir = ".";
  std::string out_path, hashes_path, target = "?";
  std::vector<Sub> subs;
  int shard = 0;  // enumerated sub-checks run in shard 0 only
  bool no_twin = false;    // harness opts out of the twin prelude (expensive cases)
  bool no_shrink = false;  // schedule-dependent checks: a failing case need not fail again, shrinking would only burn time
  std::map<std::string, double> metrics;  // named maxima (calibration numbers), merged by max in the driver
  // crash bookkeeping
  char cur_sub[128] = {0};
  std::string cur_case;
  char crash_path[512] = {0};
};
inline Ctx &ctx() {
  static Ctx c;
  return c;
}

inline void metric_max(const std::string &name, double v) {
  auto &m = ctx().metrics;
  auto it = m.find(name);
  if (it == m.end() || v > it->second) m[name] = v;
}

inline void death_callback() {
  Ctx &c = ctx();
  if (!c.crash_path[0]) return;
  FILE *f = fopen(c.crash_path, "w");
  if (f) {
    fprintf(f, "property: %s\ntarget: %s\nsubcheck: %s\nreason: process died (sanitizer report, assertion or signal)\ncase: %s\n",
            c.property.c_str(), c.target.c_str(), c.cur_sub, c.cur_case.c_str());
    fclose(f);
  }
  fprintf(stdout, "\nCRASH sub=%s replay=%s\n", c.cur_sub, c.crash_path);
  fflush(stdout);
}
inline void signal_handler(int sig) {
  death_callback();
  signal(sig, SIG_DFL);
  raise(sig);
}

inline void record(Sub &s, const std::string &text, const Obs &o) {
  SubStats &st = s.st;
  st.evaluations++;
  for (const auto &c : o.classes) st.classes[c]++;
  if (o.discarded) {
    st.discarded++;
    return;
  }
  if (o.nontrivial) {
    st.nontrivial++;
    if (st.distinct_nt.insert(fnv(text)).second) {
      size_t k = st.distinct_nt.size();
      if (k == 1 || k == 50 || k == 500) st.samples.push_back(text);
      if (text.size() > st.longest.size() && text.size() < 4000) st.longest = text;
    }
  }
}

template <class Case, class F>
void add_sub(const std::string &name, int cases, rc::Gen<Case> gen, F fn) {
  Sub s;
  s.name = name;
  s.cases = cases;
  auto with_twin = [fn](const Case &c, const std::string &text, Obs &o) {
    if (ctx().no_twin || fnv(text) % 3 != 0) return;
    Case tw = c;
    if (!make_twin(tw)) return;
    o.cls("prelude:twin-case-first");
    Obs ignored;
    try {
      fn(tw, ignored);
    } catch (...) {
    }
  };
  s.replay = [fn, with_twin](const std::string &text, Obs &o) {
    Case c = from_text<Case>(text);
    with_twin(c, text, o);
    fn(c, o);
  };
  s.run = [gen, fn, with_twin](Sub &self, uint64_t seed, double scale, int max_size) {
    rc::detail::TestParams params;
    params.seed = seed ^ fnv(self.name);
    params.maxSuccess = std::max(1, (int)(self.cases * scale));
    params.maxSize = max_size;
    params.maxDiscardRatio = 10;
    params.disableShrinking = ctx().no_shrink;
    rc::detail::TestMetadata md;
    md.id = self.name;
    md.description = self.name;
    Sub *sp = &self;
    auto t0 = std::chrono::steady_clock::now();
    auto result = rc::detail::checkTestable(
        [gen, fn, sp, with_twin]() {
          Case c = *gen;
          std::string text = to_text(c);
          Ctx &cx = ctx();
          strncpy(cx.cur_sub, sp->name.c_str(), sizeof cx.cur_sub - 1);
          cx.cur_case = text;
          Obs o;
          try {
            with_twin(c, text, o);
            fn(c, o);
          } catch (const std::exception &e) {
            o.fail(std::string("unexpected exception escaped the check: ") + e.what());
          } catch (...) {
            o.fail("unexpected non-std exception escaped the check");
          }
          record(*sp, text, o);
          if (o.failed) {
            sp->st.fail_case = text;  // last failing execution = minimal after shrinking
            sp->st.fail_why = o.why;
            RC_FAIL(o.why);
          }
          if (o.discarded) RC_DISCARD("discarded by harness");
        },
        md, params);
    self.st.wall = std::chrono::duration<double>(std::chrono::steady_clock::now() - t0).count();
    rc::detail::FailureResult fr;
    rc::detail::GaveUpResult gu;
    rc::detail::Error er;
    if (result.match(fr)) {
      self.st.failed = true;
      std::ostringstream os;
      os << fr.reproduce;
      self.st.fail_repro = os.str();
    } else if (result.match(gu)) {
      // too many discards: generator problem, never a violation; surfaced in JSON
      self.st.classes["GAVE_UP:" + gu.description]++;
    } else if (result.match(er)) {
      self.st.classes["RC_ERROR:" + er.description]++;
    }
  };
  ctx().subs.push_back(std::move(s));
}

// Deterministic (enumerated) sub-check: body calls emit(text, obs) itself.
inline void add_enum_sub(const std::string &name,
                         std::function<void(Sub &, double scale)> body,
                         std::function<void(const std::string &, Obs &)> replay, bool every_shard = false) {
  Sub s;
  s.name = name;
  s.cases = 0;
  s.replay = std::move(replay);
  s.run = [body, every_shard](Sub &self, uint64_t, double scale, int) {
    if (ctx().shard != 0 && !every_shard) return;
    auto t0 = std::chrono::steady_clock::now();
    strncpy(ctx().cur_sub, self.name.c_str(), sizeof ctx().cur_sub - 1);
    body(self, scale);
    self.st.wall = std::chrono::duration<double>(std::chrono::steady_clock::now() - t0).count();
  };
  ctx().subs.push_back(std::move(s));
}
// helper for enumerated subs; returns false when a failure was recorded (stop).
inline bool emit(Sub &s, const std::string &text, const Obs &o) {
  record(s, text, o);
  if (o.failed && !s.st.failed) {
    s.st.failed = true;
    s.st.fail_case = text;
    s.st.fail_why = o.why;
  }
  return !o.failed;
}

inline std::string write_replay(const Sub &s) {
  Ctx &c = ctx();
  char name[64];
  snprintf(name, sizeof name, "%016llx", (unsigned long long)fnv(s.name + s.st.fail_case));
  std::string path = c.replay_dir + "/" + c.property + "-" + s.name + "-" + name + ".txt";
  std::ofstream f(path);
  f << "property: " << c.property << "\ntarget: " << c.target << "\nsubcheck: " << s.name << "\nreason: " << s.st.fail_why
    << "\nrapidcheck_reproduce: " << s.st.fail_repro << "\ncase: " << s.st.fail_case << "\n";
  return path;
}

inline void write_json(const std::string &path, const std::vector<std::pair<std::string, std::string>> &viol,
                       bool exhaustive, const std::string &extra_json) {
  Ctx &c = ctx();
  std::ofstream f(path);
  f << "{\n \"property\": \"" << jesc(c.property) << "\",\n \"subs\": {\n";
  bool first = true;
  for (const auto &s : c.subs) {
    if (s.st.evaluations == 0 && !s.st.failed) continue;
    if (!first) f << ",\n";
    first = false;
    f << "  \"" << jesc(s.name) << "\": {\"evaluations\": " << s.st.evaluations
      << ", \"discarded\": " << s.st.discarded << ", \"nontrivial\": " << s.st.nontrivial
      << ", \"distinct_nontrivial\": " << s.st.distinct_nt.size() << ", \"wall_s\": " << s.st.wall
      << ", \"failed\": " << (s.st.failed ? "true" : "false") << ", \"classes\": {";
    bool f2 = true;
    for (const auto &kv : s.st.classes) {
      if (!f2) f << ", ";
      f2 = false;
      f << "\"" << jesc(kv.first) << "\": " << kv.second;
    }
    f << "}, \"samples\": [";
    std::vector<std::string> sm = s.st.samples;
    if (!s.st.longest.empty()) sm.push_back(s.st.longest);
    for (size_t i = 0; i < sm.size(); i++) f << (i ? ", " : "") << "\"" << jesc(sm[i]) << "\"";
    f << "]}";
  }
  f << "\n },\n \"exhaustive\": " << (exhaustive ? "true" : "false") << ",\n \"violations\": [";
  for (size_t i = 0; i < viol.size(); i++)
    f << (i ? ", " : "") << "{\"sub\": \"" << jesc(viol[i].first) << "\", \"replay\": \"" << jesc(viol[i].second)
      << "\"}";
  f << "],\n \"metrics\": {";
  {
    bool fm = true;
    for (const auto &kv : c.metrics) {
      f << (fm ? "" : ", ") << "\"" << jesc(kv.first) << "\": " << kv.second;
      fm = false;
    }
  }
  f << "}" << extra_json << "\n}\n";
}

// returns process exit code: 0 ok, 1 violation candidate(s) found, 2 usage
inline int main_impl(int argc, char **argv, const char *property, bool exhaustive = false) {
  Ctx &c = ctx();
  c.property = property;
  {
    std::string a0 = argv[0];
    auto p = a0.rfind('/');
    c.target = p == std::string::npos ? a0 : a0.substr(p + 1);
  }
  uint64_t seed = 1;
  double scale = 1.0;
  int max_size = 100;
  std::string replay_file, only, prefix;
  for (int i = 1; i < argc; i++) {
    std::string a = argv[i];
    auto need = [&](const char *n) -> std::string {
      if (i + 1 >= argc) {
        fprintf(stderr, "missing value for %s\n", n);
        exit(2);
      }
      return argv[++i];
    };
    if (a == "--seed") seed = std::stoull(need("--seed"));
    else if (a == "--scale") scale = std::stod(need("--scale"));
    else if (a == "--max-size") max_size = std::stoi(need("--max-size"));
    else if (a == "--out") c.out_path = need("--out");
    else if (a == "--hashes-out") c.hashes_path = need("--hashes-out");
    else if (a == "--replay-dir") c.replay_dir = need("--replay-dir");
    else if (a == "--replay") replay_file = need("--replay");
    else if (a == "--only") only = need("--only");
    else if (a == "--prefix") prefix = need("--prefix");
    else if (a == "--shard") c.shard = std::stoi(need("--shard"));
    else if (a == "--no-shrink") c.no_shrink = true;
    else if (a == "--property") c.property = need("--property");
    else if (a == "--list") {
      for (auto &s : c.subs) printf("%s %d\n", s.name.c_str(), s.cases);
      return 0;
    } else {
      fprintf(stderr, "unknown argument %s\n", a.c_str());
      return 2;
    }
  }
  if (__sanitizer_set_death_callback) __sanitizer_set_death_callback(death_callback);
  signal(SIGABRT, signal_handler);
  signal(SIGFPE, signal_handler);
  signal(SIGILL, signal_handler);

  if (!replay_file.empty()) {
    std::ifstream f(replay_file);
    std::string line, sub, text;
    while (std::getline(f, line)) {
      if (line.rfind("subcheck: ", 0) == 0) sub = line.substr(10);
      if (line.rfind("case: ", 0) == 0) text = line.substr(6);
    }
    for (auto &s : c.subs) {
      if (s.name != sub) continue;
      strncpy(c.cur_sub, s.name.c_str(), sizeof c.cur_sub - 1);
      c.cur_case = text;
      Obs o;
      try {
        s.replay(text, o);
      } catch (const ParseError &e) {
        fprintf(stderr, "cannot parse replay: %s\n", e.what());
        return 2;
      } catch (const std::exception &e) {
        o.fail(std::string("unexpected exception escaped the check: ") + e.what());
      }
      if (o.failed) {
        printf("REPLAY-FAILS sub=%s reason=%s\n", sub.c_str(), o.why.c_str());
        return 1;
      }
      printf("REPLAY-PASSES sub=%s\n", sub.c_str());
      return 0;
    }
    fprintf(stderr, "unknown subcheck '%s' in replay file\n", sub.c_str());
    return 2;
  }

  snprintf(c.crash_path, sizeof c.crash_path, "%s/%s-crash-%d.txt", c.replay_dir.c_str(), c.property.c_str(), (int)getpid());
  std::vector<std::pair<std::string, std::string>> viol;
  for (auto &s : c.subs) {
    if (!only.empty() && s.name != only) continue;
    if (!prefix.empty() && s.name.rfind(prefix, 0) != 0) continue;
    s.run(s, seed, scale, max_size);
    if (s.st.failed) {
      std::string p = write_replay(s);
      viol.emplace_back(s.name, p);
      printf("CANDIDATE sub=%s replay=%s reason=%s\n", s.name.c_str(), p.c_str(), s.st.fail_why.c_str());
    }
  }
  c.crash_path[0] = 0;
  if (!c.out_path.empty()) write_json(c.out_path, viol, exhaustive, "");
  if (!c.hashes_path.empty()) {
    std::ofstream hf(c.hashes_path, std::ios::binary);
    for (const auto &s : c.subs) {
      if (s.st.distinct_nt.empty()) continue;
      hf << s.name << " " << s.st.distinct_nt.size() << "\n";
      for (uint64_t h : s.st.distinct_nt) hf.write(reinterpret_cast<const char *>(&h), 8);
    }
  }
  return viol.empty() ? 0 : 1;
}
}  // namespace vf
#endif
