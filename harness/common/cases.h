// Plain-integer case descriptions, rapidcheck generators for them, builders
// that turn them into library objects for a scalar type T, and the bridge
// denote() from a library spline to the reference model.
#ifndef VERIF_CASES_H
#define VERIF_CASES_H
#include <bspline/Core.h>

#include <cmath>
#include <type_traits>

#include "q.h"
#include "ref.h"
#include "report.h"

namespace vc {
using ref::R;
using i64 = int64_t;

// ------------------------------------------------------------ scalar bridge
template <class T>
struct Scalar;
template <>
struct Scalar<Q> {
  static Q make(i64 n, i64 d) { return vq::frac(n, d); }
  static R exact(const Q &q) { return vq::raw(q); }
  static constexpr const char *name = "Q";
};
template <class F>
struct FloatScalar {
  static F make(i64 n, i64 d) { return static_cast<F>(n) / static_cast<F>(d); }
  static R exact(F v) {
    if (v == 0) return R(0);
    if (!(v == v) || v - v != 0) throw std::logic_error("exact(): NaN or infinity");
    int e = 0;
    long double m = frexpl((long double)v, &e);  // v = m * 2^e, |m| in [0.5,1)
    bool neg = m < 0;
    if (neg) m = -m;
    m = ldexpl(m, 64);  // integer below 2^64, exact (64-bit significand at most)
    unsigned long u = (unsigned long)m;
    R r{mpz_class(u)};
    if (e - 64 >= 0) r <<= (unsigned long)(e - 64);
    else r >>= (unsigned long)(64 - e);
    return neg ? R(-r) : r;
  }
};
template <>
struct Scalar<float> : FloatScalar<float> {
  static constexpr const char *name = "float";
};
template <>
struct Scalar<double> : FloatScalar<double> {
  static constexpr const char *name = "double";
};
template <>
struct Scalar<long double> : FloatScalar<long double> {
  static constexpr const char *name = "long double";
};
// integer-like scalar (offers every documented operation; division truncates): used only with inputs for which
// every quantity the library forms is an integer (integer grid points of equal parity, integer coefficients)
template <>
struct Scalar<long> {
  static long make(i64 n, i64 d) { return (long)(n / (d < 1 ? 1 : d)); }
  static R exact(long v) { return R(v); }
  static constexpr const char *name = "long";
};
// GMP's own rational class used DIRECTLY as the scalar type: a conforming exact type whose arithmetic operators return
// unevaluated expression templates (so `auto x = a + b * c;` in library code holds references, not a value)
template <>
struct Scalar<mpq_class> {
  static mpq_class make(i64 n, i64 d) { mpq_class r(n, d < 1 ? 1 : d); r.canonicalize(); return r; }
  static R exact(const mpq_class &v) { return v; }
  static constexpr const char *name = "mpq_class(expression templates)";
};
template <class T>
R exact(const T &v) {
  return Scalar<T>::exact(v);
}
template <class T>
T mk(i64 n, i64 d = 1) {
  return Scalar<T>::make(n, d);
}

// ------------------------------------------------------------ case structs
struct GridC {
  i64 den = 1, off = 0;
  std::vector<i64> gaps;  // n = gaps.size()+1 points; every gap >= 1
  template <class A>
  void io(A &a) {
    a("den", den);
    a("off", off);
    a("gaps", gaps);
  }
  size_t n() const { return gaps.size() + 1; }
  std::vector<R> points() const {
    std::vector<R> p;
    i64 d = den < 1 ? 1 : den;
    i64 x = off;
    p.push_back(R(x, d));
    for (auto g : gaps) {
      x += (g < 1 ? 1 : g);
      p.push_back(R(x, d));
    }
    for (auto &q : p) q.canonicalize();
    return p;
  }
  template <class T>
  std::vector<T> values() const {
    std::vector<T> p;
    i64 d = den < 1 ? 1 : den;
    i64 x = off;
    p.push_back(mk<T>(x, d));
    for (auto g : gaps) {
      x += (g < 1 ? 1 : g);
      p.push_back(mk<T>(x, d));
    }
    return p;
  }
};
}  // namespace vc
namespace vf {
template <>
struct TwinHook<vc::GridC, void> {
  // same number of points, other values: shifted by one unit, gaps in reverse order, every other gap one unit wider
  static void apply(vc::GridC &g) {
    g.off += 1;
    std::reverse(g.gaps.begin(), g.gaps.end());
    for (size_t i = 0; i < g.gaps.size(); i += 2) g.gaps[i] += 1;
  }
};
}  // namespace vf
namespace vc {
struct SplineC {
  i64 s = 0, e = 0;  // window [s,e) of grid point indices, (0,0) = empty
  i64 cden = 1;
  std::vector<i64> num;  // coefficient numerators, cycled
  i64 zmask = 0;         // bit i set -> interval i of the window is all zero
  template <class A>
  void io(A &a) {
    a("s", s);
    a("e", e);
    a("cden", cden);
    a("num", num);
    a("zmask", zmask);
  }
  size_t nint() const { return e - s >= 2 ? (size_t)(e - s - 1) : 0; }
  // coefficient k of interval i for a spline of the given order
  R coeff(size_t order, size_t i, size_t k) const {
    if (num.empty() || ((zmask >> (i % 62)) & 1)) return R(0);
    R r(num[(i * (order + 1) + k) % num.size()], cden < 1 ? 1 : cden);
    r.canonicalize();
    return r;
  }
  template <class T>
  T coeffT(size_t order, size_t i, size_t k) const {
    if (num.empty() || ((zmask >> (i % 62)) & 1)) return mk<T>(0);
    return mk<T>(num[(i * (order + 1) + k) % num.size()], cden < 1 ? 1 : cden);
  }
};

// ------------------------------------------------------------ builders
template <class T>
bspline::support::Grid<T> make_grid(const GridC &g) {
  return bspline::support::Grid<T>(g.values<T>());
}
// the same points in a separately built object; with IEEE types a zero point gets the OTHER sign: logically equal
// (-0.0 == +0.0), not bitwise identical - what two independently computed grids (i*h - L  vs  -(L - i*h)) look like
template <class T>
bspline::support::Grid<T> make_equal_grid(const GridC &g) {
  std::vector<T> v = g.values<T>();
  if constexpr (std::numeric_limits<T>::is_iec559) for (auto &x : v) if (x == static_cast<T>(0)) x = -x;
  return bspline::support::Grid<T>(v);
}
template <class T, size_t order>
bspline::Spline<T, order> make_spline(const bspline::support::Grid<T> &grid, const SplineC &c) {
  bspline::support::Support<T> sup(grid, (size_t)c.s, (size_t)c.e);
  std::vector<std::array<T, order + 1>> co(c.nint());
  for (size_t i = 0; i < co.size(); i++)
    for (size_t k = 0; k <= order; k++) co[i][k] = c.coeffT<T>(order, i, k);
  return bspline::Spline<T, order>(std::move(sup), std::move(co));
}
// Model of a SplineC directly (independent of the library, via absolute basis)
inline ref::Fn model_of(const GridC &g, const SplineC &c, size_t order) {
  ref::Fn f(g.points());
  for (size_t i = 0; i < c.nint(); i++) {
    size_t j = (size_t)c.s + i;
    R xm = (f.grid[j] + f.grid[j + 1]) / 2;
    std::vector<R> co(order + 1);
    for (size_t k = 0; k <= order; k++) co[k] = c.coeff(order, i, k);
    f.piece[j] = ref::from_midpoint(co, xm);
  }
  return f;
}
// Bridge from a library spline (any scalar type) to the model; reads only
// getSupport(), getGrid() contents and getCoefficients().
template <class T, size_t order>
ref::Fn denote(const bspline::Spline<T, order> &s) {
  const auto &sup = s.getSupport();
  const auto &grid = sup.getGrid();
  std::vector<R> pts;
  for (size_t i = 0; i < grid.size(); i++) pts.push_back(exact(grid[i]));
  ref::Fn f(pts);
  const auto &co = s.getCoefficients();
  size_t start = sup.getStartIndex();
  for (size_t i = 0; i < co.size(); i++) {
    size_t j = start + i;
    if (j + 1 >= pts.size()) throw std::logic_error("denote: coefficient array outside the grid");
    R xm = (pts[j] + pts[j + 1]) / 2;
    std::vector<R> cc;
    for (const auto &v : co[i]) cc.push_back(exact(v));
    f.piece[j] = ref::from_midpoint(cc, xm);
  }
  return f;
}

// class invariants through public accessors (C10); returns "" or a reason
template <class T>
std::string grid_invariant(const bspline::support::Grid<T> &g) {
  if (g.size() < 2) return "grid has fewer than two points";
  for (size_t i = 0; i + 1 < g.size(); i++)
    if (!(g[i] < g[i + 1])) return "grid not strictly increasing at " + std::to_string(i);
  return "";
}
template <class T>
std::string support_invariant(const bspline::support::Support<T> &s) {
  std::string r = grid_invariant(s.getGrid());
  if (!r.empty()) return r;
  size_t a = s.getStartIndex(), b = s.getEndIndex();
  bool ok = (a == 0 && b == 0) || (a < b && b <= s.getGrid().size());
  if (!ok) return "support window [" + std::to_string(a) + "," + std::to_string(b) + ") invalid for grid of " + std::to_string(s.getGrid().size());
  if (s.size() != b - a) return "support size() inconsistent";
  if (s.empty() != (a == b)) return "support empty() inconsistent";
  if (s.numberOfIntervals() != (b - a >= 2 ? b - a - 1 : 0)) return "support numberOfIntervals() inconsistent";
  if (s.containsIntervals() != (b - a >= 2)) return "support containsIntervals() inconsistent";
  return "";
}
template <class T, size_t order>
std::string spline_invariant(const bspline::Spline<T, order> &s) {
  std::string r = support_invariant(s.getSupport());
  if (!r.empty()) return r;
  if (s.getCoefficients().size() != s.getSupport().numberOfIntervals())
    return "spline holds " + std::to_string(s.getCoefficients().size()) + " coefficient arrays for " +
           std::to_string(s.getSupport().numberOfIntervals()) + " intervals";
  return "";
}

// ------------------------------------------------------------ order dispatch
template <size_t MAX, class F>
void with_order(size_t o, F &&f) {
  if (o == MAX) {
    f(std::integral_constant<size_t, MAX>{});
  } else if constexpr (MAX > 0) {
    with_order<MAX - 1>(o, std::forward<F>(f));
  } else {
    throw std::logic_error("order out of range");
  }
}

// ------------------------------------------------------------ generators
inline i64 pick(i64 lo, i64 hi) {  // inclusive; size-independent (bare inRange collapses at small sizes)
  return *rc::gen::resize(100, rc::gen::inRange<i64>(lo, hi + 1));
}
inline bool chance(int percent) { return pick(0, 99) < percent; }
template <class V>
V one_of(std::initializer_list<V> l) {
  std::vector<V> v(l);
  return v[(size_t)pick(0, (i64)v.size() - 1)];
}

struct GridOpt {
  int min_n = 2, max_n = 10;
  bool dyadic = false;    // denominators powers of two only (float-exact)
  i64 max_abs = 64;       // bound on |x| (in units of 1, before /den)
  i64 max_gap_ratio = 128;
};
inline GridC gen_grid(const GridOpt &o = GridOpt()) {
  GridC g;
  g.den = o.dyadic ? one_of<i64>({1, 2, 4, 8}) : one_of<i64>({1, 1, 2, 3, 4, 5, 7, 8});
  int n = (int)pick(o.min_n, o.max_n);
  int kind = (int)pick(0, 9);  // 0-3 near origin uniform-ish, 4-6 far, 7-9 strongly non-uniform
  i64 maxgap = kind >= 7 ? o.max_gap_ratio : 4;
  i64 total = 0;
  for (int i = 0; i + 1 < n; i++) {
    i64 gp = (kind >= 7 && chance(50)) ? 1 : pick(1, maxgap);
    g.gaps.push_back(gp);
    total += gp;
  }
  i64 span = o.max_abs * g.den;
  if (total > 2 * span) {  // rescale gaps to fit the magnitude bound
    for (auto &gp : g.gaps) gp = std::max<i64>(1, gp * 2 * span / total / 2);
    total = 0;
    for (auto gp : g.gaps) total += gp;
  }
  i64 lo = -span, hi = span - total;
  if (hi < lo) hi = lo;
  if (kind >= 4 && kind <= 6)
    g.off = chance(50) ? hi - pick(0, std::min<i64>(4, hi - lo)) : lo + pick(0, std::min<i64>(4, hi - lo));
  else
    g.off = std::max(lo, std::min(hi, pick(-3 * g.den, 3 * g.den) - total / 2));
  return g;
}

enum WinKind { W_EMPTY, W_POINT, W_ONE, W_WHOLE, W_GENERAL };
inline void gen_window(size_t n, i64 &s, i64 &e, int kind = -1) {
  if (kind < 0) kind = *rc::gen::weightedElement<int>({{1, W_EMPTY}, {1, W_POINT}, {2, W_ONE}, {3, W_WHOLE}, {6, W_GENERAL}});
  switch (kind) {
    case W_EMPTY: s = e = 0; break;
    case W_POINT: s = pick(0, (i64)n - 1); e = s + 1; break;
    case W_ONE: s = pick(0, (i64)n - 2); e = s + 2; break;
    case W_WHOLE: s = 0; e = (i64)n; break;
    default:
      s = pick(0, (i64)n - 2);
      e = pick(s + 2, (i64)n);
  }
}
struct CoefOpt {
  bool dyadic = false;
  i64 max_num = 12;
  int zero_spline_pct = 4, zero_interval_pct = 10;
};
inline void gen_coeffs(SplineC &c, size_t max_order, const CoefOpt &o = CoefOpt()) {
  c.cden = o.dyadic ? one_of<i64>({1, 2, 4, 8}) : one_of<i64>({1, 1, 2, 3, 4, 8});
  size_t want = std::max<size_t>(1, c.nint()) * (max_order + 1);
  want = std::min<size_t>(want, 40);
  if (chance(o.zero_spline_pct)) {
    c.num.assign(1, 0);
  } else {
    c.num.resize(want);
    for (auto &v : c.num) {
      v = pick(-o.max_num, o.max_num);
      if (v == 0 && chance(70)) v = 1;
    }
    if ((want % (max_order + 1)) == 0 && c.num.size() > 1 && chance(50)) c.num.push_back(pick(-o.max_num, o.max_num));  // break periodicity
  }
  c.zmask = 0;
  for (size_t i = 0; i < std::min<size_t>(c.nint(), 62); i++)
    if (chance(o.zero_interval_pct)) c.zmask |= (i64(1) << i);
}
inline SplineC gen_spline(size_t n, size_t max_order, int win_kind = -1, const CoefOpt &o = CoefOpt()) {
  SplineC c;
  gen_window(n, c.s, c.e, win_kind);
  gen_coeffs(c, max_order, o);
  return c;
}

// placement classes for two windows on one grid of n points
enum Placement { P_IDENT, P_NESTED, P_PARTIAL, P_TOUCH, P_GAP, P_ONE_FREE, P_BOTH_FREE, P_COUNT };
inline const char *placement_name(int p) {
  static const char *n[] = {"identical", "nested", "partial", "touching", "gap", "one-interval-free", "both-interval-free"};
  return p >= 0 && p < P_COUNT ? n[p] : "?";
}
// measured placement of two windows (by their index sets)
inline int classify_pair(i64 s1, i64 e1, i64 s2, i64 e2) {
  bool f1 = e1 - s1 < 2, f2 = e2 - s2 < 2;
  if (f1 && f2) return P_BOTH_FREE;
  if (f1 || f2) return P_ONE_FREE;
  if (s1 == s2 && e1 == e2) return P_IDENT;
  i64 lo = std::max(s1, s2), hi = std::min(e1, e2);  // common points [lo,hi)
  if (hi - lo >= 2) {
    if ((s1 <= s2 && e2 <= e1) || (s2 <= s1 && e1 <= e2)) return P_NESTED;
    return P_PARTIAL;
  }
  if (hi - lo == 1) return P_TOUCH;
  return P_GAP;
}
// constructs two windows realising the wanted class when the grid allows it
inline void gen_pair(size_t n, int want, i64 &s1, i64 &e1, i64 &s2, i64 &e2) {
  i64 N = (i64)n;
  auto general = [&](i64 &s, i64 &e) { gen_window(n, s, e, W_GENERAL); };
  auto freew = [&](i64 &s, i64 &e) { gen_window(n, s, e, chance(50) ? W_EMPTY : W_POINT); };
  switch (want) {
    case P_IDENT: general(s1, e1); s2 = s1; e2 = e1; break;
    case P_NESTED:
      if (N < 3) { general(s1, e1); s2 = s1; e2 = e1; break; }
      s1 = pick(0, N - 3); e1 = pick(s1 + 3, N);
      s2 = pick(s1, e1 - 2); e2 = pick(s2 + 2, e1);
      if (s2 == s1 && e2 == e1) { if (chance(50)) s2++; else e2--; }
      break;
    case P_PARTIAL:
      if (N < 4) { general(s1, e1); general(s2, e2); break; }
      { i64 a = pick(0, N - 4), b = pick(a + 1, N - 3), c = pick(b + 2, N - 1), d = pick(c + 1, N);
        s1 = a; e1 = c; s2 = b; e2 = d; }
      break;
    case P_TOUCH:
      if (N < 3) { general(s1, e1); general(s2, e2); break; }
      { i64 m = pick(1, N - 2); s1 = pick(0, m - 1); e1 = m + 1; s2 = m; e2 = pick(m + 2, N); }
      break;
    case P_GAP:
      if (N < 4) { general(s1, e1); general(s2, e2); break; }
      { i64 a = pick(0, N - 4), b = pick(a + 2, N - 2); i64 c = pick(b, N - 2), d = pick(c + 2, N);
        s1 = a; e1 = b; s2 = c; e2 = d; }
      break;
    case P_ONE_FREE: general(s1, e1); freew(s2, e2); break;
    default: freew(s1, e1); freew(s2, e2);
  }
  if (want != P_IDENT && want != P_BOTH_FREE && chance(50)) { std::swap(s1, s2); std::swap(e1, e2); }
}
inline int gen_placement() {
  return *rc::gen::weightedElement<int>({{2, P_IDENT}, {3, P_NESTED}, {4, P_PARTIAL}, {3, P_TOUCH}, {3, P_GAP}, {2, P_ONE_FREE}, {1, P_BOTH_FREE}});
}
inline std::string rstr(const R &r) { return r.get_str(); }
}  // namespace vc
#endif
