// Exact archetype scalar: offers ONLY what Spline.h documents for its scalar
// type -- default/copy construction, explicit construction from int, + - * /
// with compound forms, unary minus, six comparisons. No implicit conversions,
// no <cmath>, no numeric_limits, no streaming. Harness-side access goes through
// vq::raw(), a free function in another namespace that library code cannot
// find by ADL on Q's operators (it is found by ADL only if called unqualified
// with a Q argument as `raw(q)`, which the library never does).
#ifndef VERIF_Q_H
#define VERIF_Q_H
#include <gmpxx.h>

#include <stdexcept>
#include <string>
#include <type_traits>

class Q;
namespace vq {
const mpq_class &raw(const Q &q);
Q make(const mpq_class &v);
}  // namespace vq

class Q {
  mpq_class v_;
  // The documented requirements say the scalar type is default-constructible; they do NOT say that T() is zero. A
  // default-constructed Q is therefore INDETERMINATE: the flag propagates through arithmetic and copies, comparisons
  // involving it are false (like NaN), and reading its value in the harness throws. Library code that relies on
  // value-initialised scalars being zero produces indeterminate results, which the exact checks then report.
  bool indet_ = false;
  friend const mpq_class &vq::raw(const Q &);
  friend Q vq::make(const mpq_class &);

 public:
  Q() : v_(0), indet_(true) {}
#ifdef VERIF_PERMISSIVE_Q
  // Fallback flavour, used ONLY when the tree under test no longer compiles with the strict archetype (which is a C19
  // violation and reported there): implicit construction from any built-in arithmetic type, so that the other
  // properties can still be decided on such a tree instead of ending inconclusive.
  template <class A, std::enable_if_t<std::is_arithmetic<A>::value, bool> = true>
  Q(A a) : indet_(false) {
    if constexpr (std::is_floating_point<A>::value) v_ = mpq_class((double)a);
    else v_ = mpq_class((long)a);
  }
#else
  explicit Q(int i) : v_(i) {}
  // The documented pathway is static_cast<T>(int). A type with only that constructor ALSO accepts every other built-in
  // arithmetic argument (through the implicit conversion to int), so offering the overloads below does not change
  // what compiles. They differ in one respect only: an integer that does not fit an int keeps its VALUE instead of
  // being reduced modulo 2^32 on the way - so a scalar that wrapped in an unsigned type (e.g. a negated unsigned
  // factor, 4294967294 instead of -2) is not folded back to the intended value by accident of the conversion, and
  // the exact checks see what every wider scalar type (double, multiprecision floats) would see. Floating arguments
  // truncate toward zero exactly as the conversion to int would.
  explicit Q(unsigned i) : v_(i) {}
  explicit Q(long i) : v_(i) {}
  explicit Q(unsigned long i) : v_(i) {}
  explicit Q(long long i) : v_(static_cast<long>(i)) {}
  explicit Q(unsigned long long i) : v_(static_cast<unsigned long>(i)) {}
  template <class F, std::enable_if_t<std::is_floating_point<F>::value, bool> = true>
  explicit Q(F f) : v_(static_cast<long>(f)) {}
#endif
  Q(const Q &) = default;
  Q &operator=(const Q &) = default;
  Q(Q &&) = default;
  Q &operator=(Q &&) = default;

  Q &operator+=(const Q &o) { v_ += o.v_; indet_ = indet_ || o.indet_; return *this; }
  Q &operator-=(const Q &o) { v_ -= o.v_; indet_ = indet_ || o.indet_; return *this; }
  Q &operator*=(const Q &o) { v_ *= o.v_; indet_ = indet_ || o.indet_; return *this; }
  Q &operator/=(const Q &o) {
    indet_ = indet_ || o.indet_;
    if (o.indet_) return *this;
    if (o.v_ == 0) throw std::domain_error("Q: division by zero");
    v_ /= o.v_;
    return *this;
  }
  friend Q operator+(Q a, const Q &b) { a += b; return a; }
  friend Q operator-(Q a, const Q &b) { a -= b; return a; }
  friend Q operator*(Q a, const Q &b) { a *= b; return a; }
  friend Q operator/(Q a, const Q &b) { a /= b; return a; }
  Q operator-() const { Q r; r.v_ = -v_; r.indet_ = indet_; return r; }
  friend bool operator==(const Q &a, const Q &b) { return !a.indet_ && !b.indet_ && a.v_ == b.v_; }
  friend bool operator!=(const Q &a, const Q &b) { return a.indet_ || b.indet_ || a.v_ != b.v_; }
  friend bool operator<(const Q &a, const Q &b) { return !a.indet_ && !b.indet_ && a.v_ < b.v_; }
  friend bool operator<=(const Q &a, const Q &b) { return !a.indet_ && !b.indet_ && a.v_ <= b.v_; }
  friend bool operator>(const Q &a, const Q &b) { return !a.indet_ && !b.indet_ && a.v_ > b.v_; }
  friend bool operator>=(const Q &a, const Q &b) { return !a.indet_ && !b.indet_ && a.v_ >= b.v_; }
  bool indeterminate() const { return indet_; }
};

namespace vq {
inline const mpq_class &raw(const Q &q) {
  if (q.indet_) throw std::logic_error("a result depends on a default-constructed scalar (the documented requirements do not make T() zero)");
  return q.v_;
}
inline Q make(const mpq_class &v) {
  Q r;
  r.v_ = v;
  r.v_.canonicalize();
  r.indet_ = false;
  return r;
}
inline Q frac(long n, long d) { return make(mpq_class(n, d)); }
inline std::string str(const mpq_class &v) { return v.get_str(); }
inline std::string str(const Q &q) { return q.indeterminate() ? std::string("<indeterminate>") : raw(q).get_str(); }
}  // namespace vq
#endif
