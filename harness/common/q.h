// Exact archetype scalar: offers ONLY what Spline.h documents for its scalar
// type -- default/copy construction, explicit construction from int, + - * /
// with compound forms, unary minus, six comparisons. No implicit conversions,
// no <cmath>, no numeric_limits, no streaming. Harness-side access goes through
// vq::raw(), a free function in another namespace that library code cannot
// find by ADL on Q's operators (it is found by ADL only if called unqualified
// with a Q argument as `raw(q)`, which the library never does).
#ifndef VERIF_Q_H
#define VERIF_Q_H
#include <gmpxx.h>

#include <stdexcept>
#include <string>

class Q;
namespace vq {
const mpq_class &raw(const Q &q);
Q make(const mpq_class &v);
}  // namespace vq

class Q {
  mpq_class v_;
  friend const mpq_class &vq::raw(const Q &);
  friend Q vq::make(const mpq_class &);

 public:
  Q() : v_(0) {}
  explicit Q(int i) : v_(i) {}
  Q(const Q &) = default;
  Q &operator=(const Q &) = default;
  Q(Q &&) = default;
  Q &operator=(Q &&) = default;

  Q &operator+=(const Q &o) { v_ += o.v_; return *this; }
  Q &operator-=(const Q &o) { v_ -= o.v_; return *this; }
  Q &operator*=(const Q &o) { v_ *= o.v_; return *this; }
  Q &operator/=(const Q &o) {
    if (o.v_ == 0) throw std::domain_error("Q: division by zero");
    v_ /= o.v_;
    return *this;
  }
  friend Q operator+(Q a, const Q &b) { a += b; return a; }
  friend Q operator-(Q a, const Q &b) { a -= b; return a; }
  friend Q operator*(Q a, const Q &b) { a *= b; return a; }
  friend Q operator/(Q a, const Q &b) { a /= b; return a; }
  Q operator-() const { Q r; r.v_ = -v_; return r; }
  friend bool operator==(const Q &a, const Q &b) { return a.v_ == b.v_; }
  friend bool operator!=(const Q &a, const Q &b) { return a.v_ != b.v_; }
  friend bool operator<(const Q &a, const Q &b) { return a.v_ < b.v_; }
  friend bool operator<=(const Q &a, const Q &b) { return a.v_ <= b.v_; }
  friend bool operator>(const Q &a, const Q &b) { return a.v_ > b.v_; }
  friend bool operator>=(const Q &a, const Q &b) { return a.v_ >= b.v_; }
};

namespace vq {
inline const mpq_class &raw(const Q &q) { return q.v_; }
inline Q make(const mpq_class &v) {
  Q r;
  r.v_ = v;
  r.v_.canonicalize();
  return r;
}
inline Q frac(long n, long d) { return make(mpq_class(n, d)); }
inline std::string str(const mpq_class &v) { return v.get_str(); }
inline std::string str(const Q &q) { return raw(q).get_str(); }
}  // namespace vq
#endif
