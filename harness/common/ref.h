// Reference model: piecewise polynomials over the rationals in the ABSOLUTE
// monomial basis, indexed by grid interval. Shares no code with the library:
// no midpoint coordinates, no binomial re-expansion, no Horner in h^2, no
// index translation, no expression templates.
#ifndef VERIF_REF_H
#define VERIF_REF_H
#include <gmpxx.h>

#include <string>
#include <vector>

namespace ref {
using R = mpq_class;
using Poly = std::vector<R>;  // c[0] + c[1] x + ...

inline void trim(Poly &p) {
  while (!p.empty() && p.back() == 0) p.pop_back();
}
inline Poly trimmed(Poly p) {
  trim(p);
  return p;
}
inline bool is_zero(const Poly &p) {
  for (const auto &c : p)
    if (c != 0) return false;
  return true;
}
inline bool equal(const Poly &a, const Poly &b) {
  return trimmed(a) == trimmed(b);
}
inline Poly add(const Poly &a, const Poly &b) {
  Poly r(std::max(a.size(), b.size()), R(0));
  for (size_t i = 0; i < a.size(); i++) r[i] += a[i];
  for (size_t i = 0; i < b.size(); i++) r[i] += b[i];
  return r;
}
inline Poly scale(const Poly &a, const R &c) {
  Poly r(a);
  for (auto &x : r) x *= c;
  return r;
}
inline Poly sub(const Poly &a, const Poly &b) { return add(a, scale(b, R(-1))); }
inline Poly mul(const Poly &a, const Poly &b) {
  if (a.empty() || b.empty()) return {};
  Poly r(a.size() + b.size() - 1, R(0));
  for (size_t i = 0; i < a.size(); i++)
    for (size_t j = 0; j < b.size(); j++) r[i + j] += a[i] * b[j];
  return r;
}
inline Poly deriv(const Poly &a, size_t n = 1) {
  Poly r(a);
  for (size_t k = 0; k < n; k++) {
    if (r.empty()) return r;
    Poly d(r.size() - 1);
    for (size_t i = 1; i < r.size(); i++) d[i - 1] = r[i] * R((long)i);
    r = d;
  }
  return r;
}
inline Poly mulx(const Poly &a, size_t n = 1) {
  if (a.empty()) return a;
  Poly r(n, R(0));
  r.insert(r.end(), a.begin(), a.end());
  return r;
}
inline R eval(const Poly &a, const R &x) {  // plain power sum, not Horner
  R s(0), p(1);
  for (const auto &c : a) {
    s += c * p;
    p *= x;
  }
  return s;
}
inline Poly antideriv(const Poly &a) {
  Poly r(a.size() + 1, R(0));
  for (size_t i = 0; i < a.size(); i++) r[i + 1] = a[i] / R((long)(i + 1));
  return r;
}
inline R integral(const Poly &a, const R &lo, const R &hi) {
  Poly A = antideriv(a);
  return eval(A, hi) - eval(A, lo);
}
// (x - c)^k expanded by repeated multiplication
inline Poly shifted_power(const R &c, size_t k) {
  Poly r{R(1)};
  Poly lin{-c, R(1)};
  for (size_t i = 0; i < k; i++) r = mul(r, lin);
  return r;
}
// sum_k co[k] (x - xm)^k  in absolute basis
inline Poly from_midpoint(const std::vector<R> &co, const R &xm) {
  Poly r;
  for (size_t k = 0; k < co.size(); k++)
    r = add(r, scale(shifted_power(xm, k), co[k]));
  return r;
}
inline std::string str(const Poly &p) {
  std::string s = "[";
  for (size_t i = 0; i < p.size(); i++) {
    if (i) s += ",";
    s += p[i].get_str();
  }
  return s + "]";
}

// A function on a grid: one Poly per grid interval (missing = zero).
struct Fn {
  std::vector<R> grid;     // n points
  std::vector<Poly> piece;  // n-1 pieces
  Fn() = default;
  explicit Fn(std::vector<R> g) : grid(std::move(g)), piece(grid.size() - 1) {}
  size_t nint() const { return piece.size(); }
};
inline Fn add(const Fn &a, const Fn &b) {
  Fn r(a.grid);
  for (size_t j = 0; j < r.nint(); j++) r.piece[j] = add(a.piece[j], b.piece[j]);
  return r;
}
inline Fn sub(const Fn &a, const Fn &b) {
  Fn r(a.grid);
  for (size_t j = 0; j < r.nint(); j++) r.piece[j] = sub(a.piece[j], b.piece[j]);
  return r;
}
inline Fn mul(const Fn &a, const Fn &b) {
  Fn r(a.grid);
  for (size_t j = 0; j < r.nint(); j++) r.piece[j] = mul(trimmed(a.piece[j]), trimmed(b.piece[j]));
  return r;
}
inline Fn scale(const Fn &a, const R &c) {
  Fn r(a.grid);
  for (size_t j = 0; j < r.nint(); j++) r.piece[j] = scale(a.piece[j], c);
  return r;
}
inline Fn deriv(const Fn &a, size_t n) {
  Fn r(a.grid);
  for (size_t j = 0; j < r.nint(); j++) r.piece[j] = deriv(a.piece[j], n);
  return r;
}
inline Fn mulx(const Fn &a, size_t n) {
  Fn r(a.grid);
  for (size_t j = 0; j < r.nint(); j++) r.piece[j] = mulx(trimmed(a.piece[j]), n);
  return r;
}
inline bool is_zero(const Fn &a) {
  for (const auto &p : a.piece)
    if (!is_zero(p)) return false;
  return true;
}
// first interval where they differ, or -1
inline long first_diff(const Fn &a, const Fn &b) {
  if (a.grid != b.grid) return -2;
  for (size_t j = 0; j < a.nint(); j++)
    if (!equal(a.piece[j], b.piece[j])) return (long)j;
  return -1;
}
inline R integral(const Fn &a) {
  R s(0);
  for (size_t j = 0; j < a.nint(); j++)
    if (!is_zero(a.piece[j])) s += integral(a.piece[j], a.grid[j], a.grid[j + 1]);
  return s;
}
inline std::string str(const Fn &f) {
  std::string s;
  for (size_t j = 0; j < f.nint(); j++)
    if (!is_zero(f.piece[j])) s += " I" + std::to_string(j) + ":" + str(trimmed(f.piece[j]));
  return s.empty() ? " zero" : s;
}
}  // namespace ref
#endif
