// C02 -- evaluation returns the value of the stored piecewise polynomial.
// Oracle: linear scan for the interval + exact power-sum value of the piece in
// the absolute basis (reference model); floating types: same with a stated
// rounding allowance relative to sum |c_k| |x-xm|^k.
#include "common/cases.h"

using namespace vc;
using bspline::exceptions::BSplineException;

struct EvalC {
  GridC g;
  SplineC s;
  i64 order = 0, type = 0;  // type: 0 Q, 1 float, 2 double, 3 long double
  i64 fnum = 1, fden = 2;   // interior fraction fnum/fden in (0,1)
  i64 sexp = 0;             // floating types: grid and abscissae scaled by 2^sexp, coefficient k by 2^(-sexp*k) (exact)
  template <class A>
  void io(A &a) {
    a("g", g); a("s", s); a("order", order); a("type", type); a("fnum", fnum); a("fden", fden); a("sexp", sexp);
  }
};

template <class T>
static T fromR(const R &r) {
  if constexpr (std::is_same_v<T, Q>) return vq::make(r);
  else return (T)r.get_d();
}
template <class T>
static R absR(const R &r) { return r < 0 ? R(-r) : r; }

template <class T>
static R eps_of() {
  if constexpr (std::is_same_v<T, Q>) return R(0);
  else {
    R e(1);
    int d = std::numeric_limits<T>::digits - 1;
    for (int i = 0; i < d; i++) e /= 2;
    return e;
  }
}

template <class T, size_t order>
static void check_eval_T(const EvalC &c, vf::Obs &o) {
  constexpr bool exactT = std::is_same_v<T, Q>;
  // build the objects; floating types: everything scaled exactly by powers of two (a spline far from / close to the
  // limits of the exponent range is a spline too)
  int sexp = 0;
  // (coefficient k is scaled by 2^(-sexp*k): keep it finite for negative sexp)
  if constexpr (!exactT) sexp = (int)std::max<i64>(-((i64)std::numeric_limits<T>::max_exponent - 8) / (i64)std::max<size_t>(order, 1), std::min<i64>((i64)std::numeric_limits<T>::max_exponent - 1, c.sexp));
  std::vector<T> gv = c.g.values<T>();
  if constexpr (!exactT) for (auto &v : gv) v = std::ldexp(v, sexp);
  bspline::support::Grid<T> grid(gv);
  bspline::support::Support<T> sup0(grid, (size_t)c.s.s, (size_t)c.s.e);
  std::vector<std::array<T, order + 1>> cof(c.s.nint());
  for (size_t i = 0; i < cof.size(); i++)
    for (size_t k = 0; k <= order; k++) {
      cof[i][k] = c.s.coeffT<T>(order, i, k);
      if constexpr (!exactT) cof[i][k] = std::ldexp(cof[i][k], -sexp * (int)k);
    }
  bspline::Spline<T, order> sp(sup0, cof);
  std::vector<R> pts;
  for (const auto &v : gv) pts.push_back(exact(v));
  const size_t n = pts.size();
  const i64 s = c.s.s, e = c.s.e;
  const bool has_int = e - s >= 2;
  o.cls(std::string("type:") + Scalar<T>::name);
  o.cls("order:" + std::to_string(order));
  o.cls(e == s ? "win:empty" : e - s == 1 ? "win:point" : (s == 0 && e == (i64)n) ? "win:whole" : e - s == 2 ? "win:one-interval" : "win:sub");
  if (sexp != 0) o.cls(std::abs(sexp) > 300 || (std::is_same_v<T, float> && std::abs(sexp) > 60) ? "scale:extreme" : "scale:moderate");
  o.nt(true);  // every case evaluates at every grid point and at both support ends

  // the stored piecewise polynomial, from the object's own data (exact conversion); for Q cross-checked with the case model
  ref::Fn model = denote(sp);
  if constexpr (exactT) {
    ref::Fn direct = model_of(c.g, c.s, order);
    VCHECK(o, ref::first_diff(model, direct) == -1, "denote(spline) differs from the case model at interval " << ref::first_diff(model, direct));
  }
  // front / back
  for (int which = 0; which < 2; which++) {
    bool threw = false;
    R v;
    try {
      v = exact(which ? sp.back() : sp.front());
    } catch (const BSplineException &) {
      threw = true;
    }
    if (e == s) VCHECK(o, threw, (which ? "back()" : "front()") << " did not throw for an empty spline");
    if (e - s >= 2) VCHECK(o, !threw, (which ? "back()" : "front()") << " threw for a spline with intervals");
    if (!threw) VCHECK(o, v == (which ? pts[(size_t)e - 1] : pts[(size_t)s]), (which ? "back()" : "front()") << " = " << rstr(v) << " is not the support end");
  }
  // abscissae
  std::vector<R> xs;
  std::vector<std::string> kinds;
  auto addx = [&](const R &x, const char *k) { xs.push_back(x); kinds.push_back(k); };
  const std::vector<R> upts = c.g.points();  // unscaled
  {
  const std::vector<R> &pts = upts;
  for (size_t j = 0; j < n; j++) addx(pts[j], "gridpoint");
  R frac(c.fnum, c.fden); frac.canonicalize();
  if (!(frac > 0 && frac < 1)) frac = R(1, 2);
  for (size_t j = 0; j + 1 < n; j++) addx(pts[j] + (pts[j + 1] - pts[j]) * frac, "interior");
  R tiny(1, 1000);
  if (e > s) {
    addx(pts[(size_t)s] - tiny, "just-outside"); addx(pts[(size_t)s] + tiny * (pts[1] - pts[0]) , "just-inside-or-at");
    addx(pts[(size_t)e - 1] + tiny, "just-outside"); addx(pts[(size_t)e - 1] - tiny * (pts[1] - pts[0]), "just-inside-or-at");
  }
  addx(pts.front() - 1000, "far-outside"); addx(pts.back() + 1000, "far-outside"); addx(pts.front() - R(1, 3), "outside-grid"); addx(pts.back() + R(1, 7), "outside-grid");
  }
  std::vector<T> xT;
  {
    std::vector<std::string> kept;
    for (size_t q = 0; q < xs.size(); q++) {
      T v = fromR<T>(xs[q]);
      if constexpr (!exactT) { v = std::ldexp(v, sexp); if (!std::isfinite(v)) continue; }
      xT.push_back(v); kept.push_back(kinds[q]);
    }
    kinds = kept;
  }
  if constexpr (!exactT) {
    // one ulp either side of both support ends and of every grid point
    for (size_t j = 0; j < n; j++) {
      T p = gv[j];
      xT.push_back(std::nextafter(p, std::numeric_limits<T>::infinity())); kinds.push_back("ulp-above-gridpoint");
      xT.push_back(std::nextafter(p, -std::numeric_limits<T>::infinity())); kinds.push_back("ulp-below-gridpoint");
    }
  }
  for (size_t q = 0; q < xT.size(); q++) {
    const R x = exact(xT[q]);
    const T got_T = sp(xT[q]);
    if constexpr (!exactT) VCHECK(o, std::isfinite(got_T), "evaluation at x=" << rstr(x) << " (" << kinds[q] << ") returned a non-finite value although the stored polynomial has a finite value there");
    const R got = exact(got_T);
    const bool inside = has_int && x >= pts[(size_t)s] && x <= pts[(size_t)e - 1];
    if (!inside) {
      VCHECK(o, got == 0, "value " << rstr(got) << " at x=" << rstr(x) << " (" << kinds[q] << ") outside the closed support, expected 0");
      continue;
    }
    bool match = false;
    std::string exp;
    for (size_t j = (size_t)s; j + 1 < (size_t)e; j++) {
      if (!(pts[j] <= x && x <= pts[j + 1])) continue;
      R want = ref::eval(model.piece[j], x);
      exp += " " + rstr(want);
      if constexpr (exactT) {
        if (got == want) match = true;
      } else {
        // allowance: 64 eps * sum_k |c_k| |x-xm|^k  (+ tiny absolute for subnormal-free inputs)
        R xm = (pts[j] + pts[j + 1]) / 2, dx = absR<T>(x - xm), pw(1), S(0);
        for (size_t k = 0; k <= order; k++) { S += absR<T>(exact(cof[j - (size_t)s][k])) * pw; pw *= dx; }
        if (absR<T>(got - want) <= (order > 6 ? 128 : 64) * eps_of<T>() * S) match = true;  // Horner of degree p: ~2p eps
      }
    }
    VCHECK(o, match, "value " << rstr(got) << " at x=" << rstr(x) << " (" << kinds[q] << ") is not the value of an adjacent stored piece; expected one of:" << exp);
  }
}

#ifndef VERIF_PART
#define VERIF_PART -1
#endif
#define PART(k) (VERIF_PART == -1 || VERIF_PART == (k))
template <class T>
static void dispatch(const EvalC &c, vf::Obs &o) {
  if (c.order >= 7) { check_eval_T<T, 10>(c, o); return; }  // order 10: what the shipped examples use
  with_order<6>((size_t)std::min<i64>(std::max<i64>(c.order, 0), 6), [&](auto O) { check_eval_T<T, decltype(O)::value>(c, o); });
}
void eval_q(const EvalC &c, vf::Obs &o);
void eval_f(const EvalC &c, vf::Obs &o);
void eval_d(const EvalC &c, vf::Obs &o);
void eval_ld(const EvalC &c, vf::Obs &o);
#if PART(0)
void eval_q(const EvalC &c, vf::Obs &o) { dispatch<Q>(c, o); }
#endif
#if PART(1)
void eval_f(const EvalC &c, vf::Obs &o) { dispatch<float>(c, o); }
#endif
#if PART(2)
void eval_d(const EvalC &c, vf::Obs &o) { dispatch<double>(c, o); }
#endif
#if PART(3)
void eval_ld(const EvalC &c, vf::Obs &o) { dispatch<long double>(c, o); }
#endif

#if PART(0)
// ---- concurrent evaluation: "for every spline and every x" does not depend on what other threads evaluate at the
// same time. Several threads evaluate UNRELATED splines (own grid, own object) of the same scalar type and order;
// every value must equal the exact value of the stored polynomial (Q) / the value a sequential run returns (double).
// Built with ThreadSanitizer as well: scratch storage shared between calls is reported as a race.
#include <atomic>
#include <thread>
struct MtC {
  std::vector<EvalC> th;
  i64 rounds = 50;
  template <class A>
  void io(A &a) { a("th", th); a("rounds", rounds); }
};
template <class T, size_t order>
static void eval_points(const EvalC &c, std::vector<T> &xs, std::vector<T> &vals, std::vector<R> *want) {
  std::vector<T> gv = c.g.values<T>();
  bspline::support::Grid<T> grid(gv);
  bspline::support::Support<T> sup0(grid, (size_t)c.s.s, (size_t)c.s.e);
  std::vector<std::array<T, order + 1>> cof(c.s.nint());
  for (size_t i = 0; i < cof.size(); i++) for (size_t k = 0; k <= order; k++) cof[i][k] = c.s.coeffT<T>(order, i, k);
  const bspline::Spline<T, order> sp(sup0, cof);
  xs.clear();
  for (size_t j = 0; j + 1 < gv.size(); j++) { xs.push_back(gv[j] + (gv[j + 1] - gv[j]) * mk<T>(c.fnum, c.fden)); xs.push_back(gv[j] + (gv[j + 1] - gv[j]) / mk<T>(3)); }
  xs.push_back(gv.front() - mk<T>(1)); xs.push_back(gv.back() + mk<T>(1));
  vals.clear();
  for (const auto &x : xs) vals.push_back(sp(x));
  if (want) {
    ref::Fn model = model_of(c.g, c.s, order);
    const std::vector<R> pts = c.g.points();
    want->clear();
    for (const auto &x : xs) {
      R xr = exact(x), w(0);
      for (size_t j = (size_t)c.s.s; j + 1 < (size_t)c.s.e; j++) if (pts[j] <= xr && xr < pts[j + 1]) w = ref::eval(model.piece[j], xr);
      want->push_back(w);
    }
  }
}
template <class T>
static void run_mt(const MtC &c, vf::Obs &o) {
  const size_t nt = c.th.size();
  const size_t ord = (size_t)std::min<i64>(std::max<i64>(c.th[0].order, 0), 3);
  std::vector<std::vector<T>> got(nt);
  std::vector<int> bad(nt, 0);
  std::atomic<size_t> ready{0};
  std::atomic<bool> go{false};
  const i64 rounds = std::max<i64>(1, std::min<i64>(c.rounds, 400));
  std::vector<std::thread> th;
  for (size_t t = 0; t < nt; t++)
    th.emplace_back([&, t] {
      ready.fetch_add(1);
      while (!go.load(std::memory_order_acquire)) { }
      std::vector<T> xs, v, first;
      for (i64 r = 0; r < rounds; r++) {
        with_order<3>(ord, [&](auto O) { eval_points<T, decltype(O)::value>(c.th[t], xs, v, nullptr); });
        if (r == 0) first = v;
        else for (size_t k = 0; k < v.size(); k++) if (!(v[k] == first[k])) bad[t] = 1;
      }
      got[t] = first;
    });
  while (ready.load() < nt) std::this_thread::yield();
  go.store(true, std::memory_order_release);
  for (auto &x : th) x.join();
  for (size_t t = 0; t < nt; t++) {
    VCHECK(o, !bad[t], "thread " << t << ": repeated evaluations of one spline at one abscissa returned different values while other threads were evaluating their own splines");
    std::vector<T> xs, v;
    std::vector<R> want;
    with_order<3>(ord, [&](auto O) { eval_points<T, decltype(O)::value>(c.th[t], xs, v, &want); });  // sequential, afterwards
    VCHECK(o, v.size() == got[t].size(), "thread " << t << ": wrong number of values");
    for (size_t k = 0; k < v.size(); k++) {
      VCHECK(o, got[t][k] == v[k], "thread " << t << ": value at abscissa " << k << " obtained concurrently differs from the sequential evaluation");
      if constexpr (std::is_same_v<T, Q>) VCHECK(o, exact(got[t][k]) == want[k], "thread " << t << ": value at abscissa " << k << " is not the value of the stored polynomial (" << rstr(exact(got[t][k])) << " instead of " << rstr(want[k]) << ")");
    }
  }
}
static void check_mt(const MtC &c, vf::Obs &o) {
  if (c.th.empty()) { o.discard("no threads"); return; }
  o.cls("threads:" + std::to_string(c.th.size()));
  o.cls(c.th[0].type == 0 ? "type:Q" : "type:double");
  o.nt(c.th.size() >= 2);
  if (c.th[0].type == 0) run_mt<Q>(c, o); else run_mt<double>(c, o);
}

static void check_eval(const EvalC &c, vf::Obs &o) {
  switch (c.type) {
    case 1: eval_f(c, o); break;
    case 2: eval_d(c, o); break;
    case 3: eval_ld(c, o); break;
    default: eval_q(c, o);
  }
}

int main(int argc, char **argv) {
  auto gen = [](bool exact_only) {
    return rc::gen::exec([exact_only] {
      EvalC c;
      c.type = exact_only ? 0 : pick(1, 3);
      GridOpt go; go.dyadic = !exact_only; go.max_abs = exact_only ? 64 : 8;
      c.g = gen_grid(go);
      c.order = pick(0, 7);
      CoefOpt co; co.dyadic = !exact_only;
      c.s = gen_spline(c.g.n(), (size_t)(c.order >= 7 ? 10 : c.order), -1, co);
      c.fden = one_of<i64>({2, 3, 4, 7, 10, 1000});
      c.fnum = pick(1, c.fden - 1);
      if (!exact_only && chance(30)) {
        // scaled splines: moderate (2^+-20..200) or at the limits of the exponent range; 5%: the grid {-3/2, 1/2, 1} * 2^emax,
        // whose first interval is WIDER than the largest finite value (b - a overflows) while every grid point and every sum of two neighbours is finite
        int emax = c.type == 1 ? 127 : c.type == 2 ? 1023 : 16383;
        int r = (int)pick(0, 99);
        if (r < 50) c.sexp = (chance(50) ? 1 : -1) * pick(20, c.type == 1 ? 60 : 200);
        else if (r < 85) c.sexp = chance(50) ? pick(emax - 40, emax - 5) : -pick(emax - 60, emax - 10);
        else { c.g.den = 2; c.g.off = -3; c.g.gaps = {4, 1}; c.sexp = emax; c.s = gen_spline(3, (size_t)(c.order >= 7 ? 10 : c.order), chance(60) ? W_WHOLE : -1, co); }
      }
      return c;
    });
  };
  vf::add_sub<EvalC>("eval-exact", 2500, gen(true), check_eval);
  vf::add_sub<EvalC>("eval-float", 2500, gen(false), check_eval);
  auto gen_mt = rc::gen::exec([] {
    MtC c;
    const bool exact_only = chance(60);
    const i64 order = pick(0, 3);  // all threads use the same scalar type and order: the same template instantiations
    int nt = (int)one_of<i64>({2, 2, 3, 4, 8});
    for (int t = 0; t < nt; t++) {
      EvalC e;
      e.type = exact_only ? 0 : 2;
      GridOpt go; go.dyadic = !exact_only; go.max_abs = 8;
      e.g = gen_grid(go);
      e.order = order;
      CoefOpt co; co.dyadic = !exact_only;
      e.s = gen_spline(e.g.n(), (size_t)order, chance(60) ? W_WHOLE : W_GENERAL, co);
      e.fden = one_of<i64>({2, 4, 8}); e.fnum = pick(1, e.fden - 1);
      c.th.push_back(e);
    }
    c.rounds = pick(20, 200);
    return c;
  });
  vf::add_sub<MtC>("eval-concurrent", 60, gen_mt, check_mt);
  return vf::main_impl(argc, argv, "C02");
}
#endif
