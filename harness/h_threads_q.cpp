// C18 -- concurrent read-only use with a CLASS-TYPE scalar (the exact archetype Q: owns heap storage, non-trivial
// copy / destructor). The double workloads of h_threads.cpp cannot see scratch storage that a change introduces only
// for non-trivial scalar types (static work arrays "to save constructions", type-dependent fast paths).
// Oracle: every thread's exact results equal a sequential run made afterwards and the reference model; built with
// ThreadSanitizer (Q's own inline operators are instrumented: a shared scratch object of type Q is a reported race).
#include <atomic>
#include <thread>

#include "common/cases.h"

using namespace vc;
namespace bo = bspline::operators;
namespace bi = bspline::integration;

struct QWorkC {
  GridC g;
  std::vector<SplineC> pool;
  std::vector<i64> ops;  // per thread: start offset into the op table
  i64 threads = 2, rounds = 20;
  template <class A>
  void io(A &a) { a("g", g); a("pool", pool); a("ops", ops); a("threads", threads); a("rounds", rounds); }
};

struct QPool {
  bspline::support::Grid<Q> grid;
  std::vector<bspline::Spline<Q, 1>> s1;
  std::vector<bspline::Spline<Q, 2>> s2;
  std::vector<bspline::Spline<Q, 3>> s3;
  bspline::BSplineGenerator<Q> gen;
  QPool(const QWorkC &c) : grid(make_grid<Q>(c.g)), gen(std::vector<Q>(grid.begin(), grid.end())) {
    for (const auto &sc : c.pool) { s1.push_back(make_spline<Q, 1>(grid, sc)); s2.push_back(make_spline<Q, 2>(grid, sc)); s3.push_back(make_spline<Q, 3>(grid, sc)); }
  }
};
template <class S>
static void fold(std::vector<R> &out, const S &s) {
  out.push_back(R((long)s.getSupport().getStartIndex())); out.push_back(R((long)s.getSupport().getEndIndex()));
  for (const auto &a : s.getCoefficients()) for (const auto &v : a) out.push_back(vq::raw(v));
}
constexpr int NOPS = 12;
static void run_op(const QPool &P, int code, size_t i, size_t j, std::vector<R> &out) {
  const size_t n = P.s1.size();
  i %= n; j %= n;
  switch (code % NOPS) {
    case 0: out.push_back(vq::raw(bi::ScalarProduct{}(P.s1[i], P.s2[j]))); break;
    case 1: out.push_back(vq::raw(bi::BilinearForm{bo::X<1>{}, bo::Dx<1>{}}(P.s2[i], P.s2[j]))); break;
    case 2: out.push_back(vq::raw(bi::BilinearForm{bo::Dx<1>{}, bo::Dx<1>{}}(P.s3[i], P.s3[j]))); break;
    case 3: out.push_back(vq::raw(bi::LinearForm{bo::X<2>{}}(P.s3[i]))); out.push_back(vq::raw(bi::LinearForm{}(P.s1[j]))); break;
    case 4: { Q x = P.grid[i % P.grid.size()] + vq::frac((long)j + 1, 16); out.push_back(vq::raw(P.s3[i](x))); out.push_back(vq::raw(P.s1[j](x))); break; }
    case 5: fold(out, P.s2[i] + P.s1[j]); break;
    case 6: fold(out, P.s1[i] * P.s2[j]); break;
    case 7: fold(out, (bo::X<1>{} * bo::Dx<1>{} - 2) * P.s2[i]); break;
    case 8: fold(out, bo::SplineOperator{P.s1[j]} * P.s2[i]); break;
    case 9: { auto b = P.gen.generateBSplines<2>(); for (const auto &s : b) fold(out, s); break; }
    case 10: { std::vector<Q> cf(P.s2.size(), vq::frac(1, 2)); cf[i] = vq::frac(-5, 4); fold(out, bspline::linearCombination(cf, P.s2)); break; }
    default: { auto c3 = P.s3[i]; c3 *= vq::frac(3, 2); c3 -= P.s1[j]; fold(out, c3); out.push_back(R((long)(P.s2[i] == P.s2[j]))); break; }
  }
}
static void run_thread(const QPool &P, const QWorkC &c, size_t t, std::vector<R> &out) {
  const i64 rounds = std::max<i64>(1, std::min<i64>(c.rounds, 100));
  const size_t off = (size_t)(c.ops.empty() ? 0 : c.ops[t % c.ops.size()]);
  for (i64 r = 0; r < rounds; r++)
    for (int k = 0; k < NOPS; k++) run_op(P, (int)((off + (size_t)k) % NOPS), t + (size_t)r, off + (size_t)k, out);
}
static void check_qwork(const QWorkC &c, vf::Obs &o) {
  if (c.pool.empty()) { o.discard("empty pool"); return; }
  const QPool P(c);
  const size_t nt = (size_t)std::max<i64>(2, std::min<i64>(c.threads, 8));
  o.cls("threads:" + std::to_string(nt));
  o.nt(true);
  std::vector<std::vector<R>> got(nt), expect(nt);
  std::atomic<size_t> ready{0};
  std::atomic<bool> go{false};
  std::vector<std::thread> th;
  for (size_t t = 0; t < nt; t++)
    th.emplace_back([&, t] {
      ready.fetch_add(1);
      while (!go.load(std::memory_order_acquire)) { }
      run_thread(P, c, t, got[t]);
    });
  while (ready.load() < nt) std::this_thread::yield();
  go.store(true, std::memory_order_release);
  for (auto &x : th) x.join();
  for (size_t t = 0; t < nt; t++) run_thread(P, c, t, expect[t]);  // sequential reference, afterwards
  for (size_t t = 0; t < nt; t++) {
    VCHECK(o, got[t].size() == expect[t].size(), "thread " << t << " produced " << got[t].size() << " values, the sequential run " << expect[t].size());
    for (size_t k = 0; k < got[t].size(); k++)
      VCHECK(o, got[t][k] == expect[t][k], "thread " << t << ": exact result " << k << " obtained concurrently (" << rstr(got[t][k]) << ") differs from the sequential run (" << rstr(expect[t][k]) << ") with a class-type scalar");
  }
  // anchor the sequential values themselves: the first scalar product against the reference model
  {
    ref::Fn f1 = model_of(c.g, c.pool[0], 1), f2 = model_of(c.g, c.pool[0], 2);
    VCHECK(o, vq::raw(bi::ScalarProduct{}(P.s1[0], P.s2[0])) == ref::integral(ref::mul(f1, f2)), "sequential scalar product differs from the reference model");
  }
}

int main(int argc, char **argv) {
  vf::ctx().no_twin = true;
  auto gen = rc::gen::exec([] {
    QWorkC c;
    GridOpt go; go.min_n = 4; go.max_n = 9;
    c.g = gen_grid(go);
    int np = (int)pick(3, 5);
    for (int i = 0; i < np; i++) c.pool.push_back(gen_spline(c.g.n(), 3, i == 0 ? W_WHOLE : -1));
    c.threads = one_of<i64>({2, 3, 4, 8});
    for (i64 t = 0; t < c.threads; t++) c.ops.push_back(chance(50) ? 0 : pick(0, NOPS - 1));  // half of the threads run the ops in the same order (same kernels at the same time)
    c.rounds = pick(5, 40);
    return c;
  });
  vf::add_sub<QWorkC>("class-scalar-workloads", 40, gen, check_qwork);
  return vf::main_impl(argc, argv, "C18");
}
