// C-ABI shim around /repo/examples/*.cpp (C20). Compiled together with the
// example sources into libexamples_dbg.so with -D_GLIBCXX_DEBUG
// -fsanitize=address,undefined; no std container crosses this boundary, so the
// rapidcheck-linked driver can stay in normal libstdc++ mode.
#include <cmath>
#include <cstring>
#include <exception>
#include <vector>

#include "diffusion.h"
#include "harmonic-oscillator.h"
#include "hydrogen.h"
#include "spline-potential.h"

using bspline::exceptions::BSplineException;
using namespace bspline::examples;

static void seterr(char *err, int n, const char *msg) {
  if (err && n > 0) { std::strncpy(err, msg, (size_t)n - 1); err[n - 1] = 0; }
}
#define GUARD(...)                                                           \
  try { __VA_ARGS__; return 0; }                                                   \
  catch (const BSplineException &e) { seterr(err, errlen, e.what()); return 1; } \
  catch (const std::exception &e) { seterr(err, errlen, e.what()); return 2; }   \
  catch (...) { seterr(err, errlen, "non-std exception"); return 3; }

extern "C" {
// returns 0 ok, 1 rejected with BSplineException, 2/3 foreign exception
int ex_diffusion(const double *grid, int n, int ws, int we, const double *dcoef, double start, double end, const double *xs, int nx,
                 double *out, double *front, double *back, char *err, int errlen) {
  GUARD({
    bspline::support::Grid<double> g(std::vector<double>(grid, grid + n));
    bspline::support::Support<double> sup(g, (size_t)ws, (size_t)we);
    std::vector<std::array<double, 1>> co(sup.numberOfIntervals());
    for (size_t i = 0; i < co.size(); i++) co[i][0] = dcoef[i];
    diffusion::DSpline d(sup, co);
    const auto u = diffusion::solveDiffusionSteadyState(d, start, end);
    *front = u.front(); *back = u.back();
    for (int i = 0; i < nx; i++) out[i] = u(xs[i]);
  })
}
// potential family: a x^2 + b sin(w x) + d ; constant c1 added before interpolation, c2 added as a constant spline
int ex_spline_potential(const double *grid, int n, double a, double b, double w, double d, double c1, double c2, int ws, int we, double *eig10, char *err, int errlen) {
  GUARD({
    std::vector<double> pts(grid, grid + n);
    auto v = spline_potential::interpolateFunction(pts, [=](double x) { return a * x * x + b * std::sin(w * x) + d + c1; });
    if (ws > 0 || we < n) {
      // restrict the potential to the window [ws,we): it is zero on the rest of the box (a step / well / barrier)
      bspline::support::Support<double> sub(v.getSupport().getGrid(), (size_t)ws, (size_t)we);
      std::vector<std::array<double, 4>> co(v.getCoefficients().begin() + ws, v.getCoefficients().begin() + (we - 1));
      v = PSpline(sub, co);
    }
    if (c2 != 0.0) {
      const auto sup = bspline::support::Support<double>::createWholeGrid(v.getSupport().getGrid());
      std::vector<std::array<double, 4>> co(sup.numberOfIntervals());
      for (auto &arr : co) { arr.fill(0.0); arr[0] = c2; }
      v = v + PSpline(sup, co);
    }
    const auto es = spline_potential::solveSEWithSplinePotential(v);
    for (size_t i = 0; i < 10 && i < es.size(); i++) eig10[i] = es[i].energy;
  })
}
int ex_harmonic(double *eig10, char *err, int errlen) {
  GUARD({ const auto es = harmonic_oscillator::solveHarmonicOscillator(); for (size_t i = 0; i < 10 && i < es.size(); i++) eig10[i] = es[i].energy; })
}
int ex_hydrogen(double *eig10, char *err, int errlen) {
  GUARD({ const auto es = hydrogen::solveRadialHydrogen(); for (size_t i = 0; i < 10 && i < es.size(); i++) eig10[i] = es[i].energy; })
}
int ex_hydrogen_L() { return hydrogen::L; }
}
