// C03 -- spline arithmetic is pointwise arithmetic of the denoted functions.
// Exact: library instantiated with Q, oracle = reference model on every grid interval.
#include "common/cases.h"

using namespace vc;

static Q qs(i64 n, i64 d) { return vq::frac(n, d < 1 ? 1 : d); }
static R rs(i64 n, i64 d) { R r(n, d < 1 ? 1 : d); r.canonicalize(); return r; }

#define SAME_FN(o, lib, expect, what)                                                                   \
  do {                                                                                                  \
    std::string inv_ = spline_invariant(lib);                                                           \
    VCHECK(o, inv_.empty(), what << ": result object invalid: " << inv_);                               \
    ref::Fn got_ = denote(lib);                                                                         \
    long d_ = ref::first_diff(got_, expect);                                                            \
    VCHECK(o, d_ == -1, what << ": differs from the pointwise result on grid interval " << d_           \
                             << "; got" << ref::str(got_) << " expected" << ref::str(expect));         \
  } while (0)

// --------------------------------------------------------------------- pairs
struct ArithC {
  GridC g;
  SplineC a, b;
  i64 oa = 0, ob = 0, cnum = 1, cden = 1;
  template <class A>
  void io(A &x) { x("g", g); x("a", a); x("b", b); x("oa", oa); x("ob", ob); x("cnum", cnum); x("cden", cden); }
};

template <size_t oa, size_t ob>
static void pair_T(const ArithC &c, vf::Obs &o) {
  auto grid = make_grid<Q>(c.g);
  const auto a = make_spline<Q, oa>(grid, c.a);
  const auto b = make_spline<Q, ob>(grid, c.b);
  const auto a0 = a;
  const auto b0 = b;
  ref::Fn fa = model_of(c.g, c.a, oa), fb = model_of(c.g, c.b, ob);
  int pl = classify_pair(c.a.s, c.a.e, c.b.s, c.b.e);
  o.cls(std::string("placement:") + placement_name(pl));
  o.cls("orders:" + std::to_string(oa) + "," + std::to_string(ob));
  o.nt(pl != P_IDENT || oa != ob);
  i64 cn = c.cnum == 0 ? 1 : c.cnum;
  Q cq = qs(cn, c.cden);
  R cr = rs(cn, c.cden);

  SAME_FN(o, (a + b), ref::add(fa, fb), "a+b");
  SAME_FN(o, (b + a), ref::add(fa, fb), "b+a");
  SAME_FN(o, (a - b), ref::sub(fa, fb), "a-b");
  SAME_FN(o, (b - a), ref::sub(fb, fa), "b-a");
  SAME_FN(o, (a * b), ref::mul(fa, fb), "a*b");
  SAME_FN(o, (b * a), ref::mul(fa, fb), "b*a");
  SAME_FN(o, (a * cq), ref::scale(fa, cr), "a*c");
  SAME_FN(o, (cq * a), ref::scale(fa, cr), "c*a");
  SAME_FN(o, (a / cq), ref::scale(fa, 1 / cr), "a/c");
  SAME_FN(o, (-a), ref::scale(fa, R(-1)), "-a");
  SAME_FN(o, (a * Q(0)), ref::scale(fa, R(0)), "a*0");
  // ONE object in both operand positions (an identity-based shortcut must still be the pointwise operation)
  SAME_FN(o, (a + a), ref::scale(fa, R(2)), "a+a (same object)");
  SAME_FN(o, (a - a), ref::scale(fa, R(0)), "a-a (same object)");
  SAME_FN(o, (a * a), ref::mul(fa, fa), "a*a (same object)");
  SAME_FN(o, (b * b), ref::mul(fb, fb), "b*b (same object)");
  { std::vector<Q> cf{cq, Q(-2), Q(1)}; std::vector<bspline::Spline<Q, oa>> v{a, a, a};
    SAME_FN(o, bspline::linearCombination(cf, v), ref::scale(fa, cr - 1), "linearCombination of three copies of one spline"); }
  { // result of the product is supported only on common intervals (and valid even without overlap)
    auto p = a * b;
    i64 lo = std::max(c.a.s, c.b.s), hi = std::min(c.a.e, c.b.e);
    bool share = c.a.e - c.a.s >= 2 && c.b.e - c.b.s >= 2 && hi - lo >= 2;
    VCHECK(o, share || p.getSupport().numberOfIntervals() == 0, "product without common interval has intervals");
  }
  // in-place forms (defined for rhs order <= lhs order)
  if constexpr (ob <= oa) {
    auto t = a; t += b; SAME_FN(o, t, ref::add(fa, fb), "a+=b");
    auto u = a; u -= b; SAME_FN(o, u, ref::sub(fa, fb), "a-=b");
    auto v = a; (v += b) -= b; SAME_FN(o, v, fa, "(a+=b)-=b");
    auto w = a; w += w; SAME_FN(o, w, ref::scale(fa, R(2)), "a+=a");
    auto w2 = a; w2 -= w2; SAME_FN(o, w2, ref::scale(fa, R(0)), "a-=a");
  }
  if constexpr (oa <= ob) {
    auto t = b; t += a; SAME_FN(o, t, ref::add(fa, fb), "b+=a");
    auto u = b; u -= a; SAME_FN(o, u, ref::sub(fb, fa), "b-=a");
  }
  { auto t = a; t *= cq; SAME_FN(o, t, ref::scale(fa, cr), "a*=c"); }
  { auto t = a; t /= cq; SAME_FN(o, t, ref::scale(fa, 1 / cr), "a/=c"); }
  // cross-order assignment preserves the function
  if constexpr (ob < oa) {
    auto t = a; t = b; SAME_FN(o, t, fb, "higher = lower");
    VCHECK(o, t.getSupport() == b.getSupport(), "cross-order assignment changed the window");
  }
  if constexpr (oa < ob) {
    auto t = b; t = a; SAME_FN(o, t, fa, "higher = lower");
  }
  VCHECK(o, a == a0 && b == b0, "an operand was modified by an operation");
}
#ifndef VERIF_PART
#define VERIF_PART -1
#endif
#define PART(k) (VERIF_PART == -1 || VERIF_PART == (k))
void pair_oa01(const ArithC &c, vf::Obs &o, size_t oa, size_t ob);
void pair_oa23(const ArithC &c, vf::Obs &o, size_t oa, size_t ob);
#if PART(1)
void pair_oa01(const ArithC &c, vf::Obs &o, size_t oa, size_t ob) {
  with_order<1>(oa, [&](auto A) { with_order<3>(ob, [&](auto B) { pair_T<decltype(A)::value, decltype(B)::value>(c, o); }); });
}
#endif
#if PART(2)
void pair_oa23(const ArithC &c, vf::Obs &o, size_t oa, size_t ob) {
  with_order<1>(oa - 2, [&](auto A) { with_order<3>(ob, [&](auto B) { pair_T<decltype(A)::value + 2, decltype(B)::value>(c, o); }); });
}
#endif
// ---- high spline orders (the shipped examples use order 10): arithmetic, primitive operators and forms, exact
template <size_t oa, size_t ob>
static void high_T(const ArithC &c, vf::Obs &o) {
  namespace bo = bspline::operators;
  namespace bi = bspline::integration;
  auto grid = make_grid<Q>(c.g);
  const auto a = make_spline<Q, oa>(grid, c.a);
  const auto b = make_spline<Q, ob>(grid, c.b);
  ref::Fn fa = model_of(c.g, c.a, oa), fb = model_of(c.g, c.b, ob);
  o.cls("orders:" + std::to_string(oa) + "," + std::to_string(ob));
  o.cls(std::string("placement:") + placement_name(classify_pair(c.a.s, c.a.e, c.b.s, c.b.e)));
  o.nt(c.a.e - c.a.s >= 2 && c.b.e - c.b.s >= 2);
  SAME_FN(o, (a + b), ref::add(fa, fb), "a+b");
  SAME_FN(o, (b - a), ref::sub(fb, fa), "b-a");
  SAME_FN(o, (a * b), ref::mul(fa, fb), "a*b");
  if constexpr (ob <= oa) { auto t = a; t += b; t -= b; t -= b; SAME_FN(o, t, ref::sub(fa, fb), "a+=b,-=b,-=b"); }
  SAME_FN(o, (bo::Dx<3>{} * a), ref::deriv(fa, 3), "Dx<3>*a");
  SAME_FN(o, (bo::X<2>{} * a), ref::mulx(fa, 2), "X<2>*a");
  SAME_FN(o, ((bo::X<1>{} * bo::Dx<1>{} - bo::Dx<1>{} * bo::X<1>{}) * a), ref::scale(fa, R(-1)), "(X Dx - Dx X) a");
  VCHECK(o, vq::raw(bi::LinearForm{bo::X<1>{}}(a)) == ref::integral(ref::mulx(fa, 1)), "LinearForm{X<1>} inexact at order " << oa);
  VCHECK(o, vq::raw(bi::ScalarProduct{}(a, b)) == ref::integral(ref::mul(fa, fb)), "ScalarProduct inexact at orders " << oa << "," << ob);
  VCHECK(o, vq::raw(bi::BilinearForm{bo::Dx<1>{}, bo::Dx<1>{}}(a, b)) == ref::integral(ref::mul(ref::deriv(fa, 1), ref::deriv(fb, 1))), "BilinearForm{Dx,Dx} inexact at orders " << oa << "," << ob);
  VCHECK(o, vq::raw(bi::BilinearForm{bo::X<2>{}}(a, b)) == ref::integral(ref::mul(fa, ref::mulx(fb, 2))), "BilinearForm{X<2>} inexact at orders " << oa << "," << ob);
  if (c.a.e - c.a.s >= 2) {
    R x = (fa.grid[(size_t)c.a.s] + fa.grid[(size_t)c.a.s + 1] * 2) / 3;
    VCHECK(o, vq::raw(a(vq::make(x))) == ref::eval(fa.piece[(size_t)c.a.s], x), "evaluation inexact at order " << oa);
  }
}
void high_order(const ArithC &c, vf::Obs &o);
#if PART(3)
void high_order(const ArithC &c, vf::Obs &o) {
  switch (((c.oa % 3) + 3) % 3) {
    case 0: high_T<10, 10>(c, o); break;
    case 1: high_T<10, 2>(c, o); break;
    default: high_T<7, 4>(c, o); break;
  }
}
#endif

#if PART(0)
static void check_pair(const ArithC &c, vf::Obs &o) {
  size_t oa = (size_t)std::min<i64>(std::max<i64>(c.oa, 0), 3), ob = (size_t)std::min<i64>(std::max<i64>(c.ob, 0), 3);
  if (oa <= 1) pair_oa01(c, o, oa, ob);
  else pair_oa23(c, o, oa, ob);
}
#endif

#if PART(0)
// --------------------------------------------------------- linearCombination
struct LinC {
  GridC g;
  i64 order = 0, cden = 1;
  std::vector<SplineC> ss;
  std::vector<i64> cn;
  template <class A>
  void io(A &x) { x("g", g); x("order", order); x("cden", cden); x("ss", ss); x("cn", cn); }
};
template <size_t order>
static void lin_T(const LinC &c, vf::Obs &o) {
  auto grid = make_grid<Q>(c.g);
  std::vector<bspline::Spline<Q, order>> splines;
  std::vector<Q> coeffs;
  ref::Fn expect(c.g.points());
  size_t freec = 0, gaps = 0;
  i64 lo = 1 << 30, hi = -1;
  for (size_t i = 0; i < c.ss.size(); i++) {
    splines.push_back(make_spline<Q, order>(grid, c.ss[i]));
    i64 cn = i < c.cn.size() ? c.cn[i] : 1;
    coeffs.push_back(qs(cn, c.cden));
    expect = ref::add(expect, ref::scale(model_of(c.g, c.ss[i], order), rs(cn, c.cden)));
    if (c.ss[i].e - c.ss[i].s < 2) freec++;
    if (c.ss[i].e > c.ss[i].s) { lo = std::min(lo, c.ss[i].s); hi = std::max(hi, c.ss[i].e); }
  }
  if (c.ss.empty()) { o.discard("no splines"); return; }
  (void)gaps;
  const auto before = splines;
  auto r1 = bspline::linearCombination(coeffs, splines);
  auto r2 = bspline::linearCombination(coeffs.begin(), coeffs.end(), splines.begin(), splines.end());
  SAME_FN(o, r1, expect, "linearCombination(collections)");
  SAME_FN(o, r2, expect, "linearCombination(iterators)");
  VCHECK(o, r1 == r2, "the two linearCombination overloads disagree");
  VCHECK(o, before == splines, "linearCombination modified its arguments");
  // agreement with successive scalar multiplication and addition
  auto acc = coeffs[0] * splines[0];
  for (size_t i = 1; i < splines.size(); i++) acc += coeffs[i] * splines[i];
  VCHECK(o, ref::first_diff(denote(acc), expect) == -1, "sum of c_i*S_i by operators differs from the model");
  // std::list / const arrays are collections too
  o.cls("count:" + std::to_string(c.ss.size()));
  o.cls("order:" + std::to_string(order));
  if (freec) o.cls("has-interval-free-member");
  o.nt(c.ss.size() >= 2);
}
static void check_lin(const LinC &c, vf::Obs &o) {
  with_order<3>((size_t)std::min<i64>(std::max<i64>(c.order, 0), 3), [&](auto A) { lin_T<decltype(A)::value>(c, o); });
}

// ------------------------------------------------------ in-place histories
struct StepC {
  i64 op = 0;  // 0 += s, 1 -= s, 2 *= c, 3 /= c, 4 = lower-order s, 5 = same-order s, 6 = -acc, 7 acc = acc * c (binary), 8 acc = acc + s (binary)
  i64 order = 0, cnum = 1, cden = 1;
  SplineC s;
  template <class A>
  void io(A &x) { x("op", op); x("order", order); x("cnum", cnum); x("cden", cden); x("s", s); }
};
struct HistC {
  GridC g;
  SplineC init;
  std::vector<StepC> steps;
  template <class A>
  void io(A &x) { x("g", g); x("init", init); x("steps", steps); }
};
static void check_hist(const HistC &c, vf::Obs &o) {
  constexpr size_t AO = 3;
  auto grid = make_grid<Q>(c.g);
  auto acc = make_spline<Q, AO>(grid, c.init);
  ref::Fn model = model_of(c.g, c.init, AO);
  o.nt(c.steps.size() >= 3);
  o.cls("length:" + std::to_string(std::min<size_t>(c.steps.size(), 12)));
  size_t k = 0;
  for (const auto &st : c.steps) {
    k++;
    i64 cn = st.cnum == 0 ? 1 : st.cnum;
    Q cq = qs(cn, st.cden);
    R cr = rs(cn, st.cden);
    size_t so = (size_t)std::min<i64>(std::max<i64>(st.order, 0), 3);
    o.cls("op:" + std::to_string(st.op));
    switch (st.op) {
      case 0: case 1: case 8:
        with_order<3>(so, [&](auto S) {
          constexpr size_t ord = decltype(S)::value;
          auto s = make_spline<Q, ord>(grid, st.s);
          ref::Fn fs = model_of(c.g, st.s, ord);
          if (st.op == 0) { acc += s; model = ref::add(model, fs); }
          else if (st.op == 1) { acc -= s; model = ref::sub(model, fs); }
          else { acc = acc + s; model = ref::add(model, fs); }
        });
        break;
      case 2: acc *= cq; model = ref::scale(model, cr); break;
      case 3: acc /= cq; model = ref::scale(model, 1 / cr); break;
      case 4:
        with_order<2>(std::min<size_t>(so, 2), [&](auto S) {
          constexpr size_t ord = decltype(S)::value;
          auto s = make_spline<Q, ord>(grid, st.s);
          acc = s;
          model = model_of(c.g, st.s, ord);
        });
        break;
      case 5: acc = make_spline<Q, AO>(grid, st.s); model = model_of(c.g, st.s, AO); break;
      case 6: acc = -acc; model = ref::scale(model, R(-1)); break;
      default: acc = acc * cq; model = ref::scale(model, cr); break;
    }
    std::string inv = spline_invariant(acc);
    VCHECK(o, inv.empty(), "after step " << k << " (op " << st.op << "): " << inv);
    long d = ref::first_diff(denote(acc), model);
    VCHECK(o, d == -1, "after step " << k << " (op " << st.op << ") the accumulator differs from the model on interval " << d << ": got"
                                     << ref::str(denote(acc)) << " expected" << ref::str(model));
  }
}

int main(int argc, char **argv) {
  auto genpair = rc::gen::exec([] {
    ArithC c;
    c.g = gen_grid();
    c.oa = pick(0, 3); c.ob = pick(0, 3);
    gen_pair(c.g.n(), gen_placement(), c.a.s, c.a.e, c.b.s, c.b.e);
    gen_coeffs(c.a, 3); gen_coeffs(c.b, 3);
    c.cnum = pick(-9, 9); if (c.cnum == 0) c.cnum = 5;
    c.cden = one_of<i64>({1, 2, 3, 7});
    return c;
  });
  auto genlin = rc::gen::exec([] {
    LinC c;
    c.g = gen_grid();
    c.order = pick(0, 3);
    c.cden = one_of<i64>({1, 2, 3});
    int cnt = (int)pick(1, 6);
    for (int i = 0; i < cnt; i++) {
      c.ss.push_back(gen_spline(c.g.n(), (size_t)c.order));
      c.cn.push_back(chance(10) ? 0 : pick(-9, 9));
    }
    return c;
  });
  auto genhist = rc::gen::exec([] {
    HistC c;
    c.g = gen_grid();
    c.init = gen_spline(c.g.n(), 3);
    int len = (int)pick(1, 10);
    for (int i = 0; i < len; i++) {
      StepC s;
      s.op = *rc::gen::weightedElement<i64>({{5, 0}, {4, 1}, {2, 2}, {2, 3}, {2, 4}, {1, 5}, {1, 6}, {1, 7}, {1, 8}});
      s.order = pick(0, 3);
      s.cnum = pick(-5, 5); if (s.cnum == 0) s.cnum = 2;
      s.cden = one_of<i64>({1, 2, 3});
      s.s = gen_spline(c.g.n(), 3);
      c.steps.push_back(s);
    }
    return c;
  });
  vf::add_sub<ArithC>("pairs", 2500, genpair, check_pair);
  auto genhigh = rc::gen::exec([] {
    ArithC c;
    GridOpt go; go.max_n = 7;
    c.g = gen_grid(go);
    c.oa = pick(0, 2);
    gen_pair(c.g.n(), gen_placement(), c.a.s, c.a.e, c.b.s, c.b.e);
    gen_coeffs(c.a, 10); gen_coeffs(c.b, 10);
    return c;
  });
  vf::add_sub<ArithC>("high-order", 300, genhigh, high_order);
  vf::add_sub<LinC>("linear-combination", 1500, genlin, check_lin);
  vf::add_sub<HistC>("inplace-history", 1500, genhist, check_hist);
  return vf::main_impl(argc, argv, "C03");
}
#endif
