// Splits the instantiation of hist::Interp<T>::binary<oa,ob> over several
// translation units (VERIF_PART): part 0 = front end + everything else,
// part 1 = oa 0..1, part 2 = oa 2, part 3 = oa 3.
#ifndef VERIF_HIST_PARTS_H
#define VERIF_HIST_PARTS_H
#ifndef VERIF_PART
#define VERIF_PART -1
#endif
#define HIST_ROW(X, T, a) X(T, a, 0) X(T, a, 1) X(T, a, 2) X(T, a, 3)
#define HIST_EXTERN(T, a, b) extern template void hist::Interp<T>::binary<a, b>(const hist::Op &);
#define HIST_DEFINE(T, a, b) template void hist::Interp<T>::binary<a, b>(const hist::Op &);
#if VERIF_PART == -1
#define HIST_INSTANTIATE(T)
#elif VERIF_PART == 0
#define HIST_INSTANTIATE(T) HIST_ROW(HIST_EXTERN, T, 0) HIST_ROW(HIST_EXTERN, T, 1) HIST_ROW(HIST_EXTERN, T, 2) HIST_ROW(HIST_EXTERN, T, 3)
#elif VERIF_PART == 1
#define HIST_INSTANTIATE(T) HIST_ROW(HIST_DEFINE, T, 0) HIST_ROW(HIST_DEFINE, T, 1)
#elif VERIF_PART == 2
#define HIST_INSTANTIATE(T) HIST_ROW(HIST_DEFINE, T, 2)
#else
#define HIST_INSTANTIATE(T) HIST_ROW(HIST_DEFINE, T, 3)
#endif
#endif
