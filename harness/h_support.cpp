// C13 -- support windows form the expected interval algebra over the grid.
// Oracle: windows as finite sets of grid-point indices [s,e).
#include <map>
#include <memory>

#include "common/cases.h"

using namespace vc;
using bspline::exceptions::BSplineException;
using Sup = bspline::support::Support<double>;
using Grd = bspline::support::Grid<double>;

struct SupC {
  i64 n = 2;
  i64 s1 = 0, e1 = 0, s2 = 0, e2 = 0, s3 = 0, e3 = 0;
  i64 gridmode = 0;  // for w2: 0 shared instance, 1 distinct equal object, 2 one point moved, 3 shorter grid (prefix), 4 longer grid
  template <class A>
  void io(A &a) {
    a("n", n); a("s1", s1); a("e1", e1); a("s2", s2); a("e2", e2); a("s3", s3); a("e3", e3); a("gridmode", gridmode);
  }
};

static std::vector<double> pts(size_t n) {
  std::vector<double> v(n);
  for (size_t i = 0; i < n; i++) v[i] = (double)i * 0.5 - 1.0;
  return v;
}
struct W {
  i64 s, e;
  bool empty() const { return s == e; }
  i64 size() const { return e - s; }
};
static W hull(W a, W b) {
  if (a.empty() && b.empty()) return {0, 0};
  if (a.empty()) return b;
  if (b.empty()) return a;
  return {std::min(a.s, b.s), std::max(a.e, b.e)};
}
static W inter(W a, W b) {
  i64 s = std::max(a.s, b.s), e = std::min(a.e, b.e);
  if (a.empty() || b.empty() || s >= e) return {0, 0};
  return {s, e};
}
static bool same(const Sup &x, W w) {
  if (w.empty()) return x.empty() && x.size() == 0;
  return (i64)x.getStartIndex() == w.s && (i64)x.getEndIndex() == w.e;
}
static std::vector<size_t> index_values(size_t n) {
  std::vector<size_t> v;
  const size_t M = ~size_t(0);
  for (size_t k = 0; k <= n + 2; k++) {
    v.push_back(k);
    v.push_back(M - k);
    v.push_back(M / 2 - k); v.push_back(M / 2 + k);
    v.push_back((size_t(1) << 32) - k); v.push_back((size_t(1) << 32) + k);
    v.push_back((size_t(1) << 63) - k); v.push_back((size_t(1) << 63) + k);
  }
  return v;
}

// everything about ONE window: size, intervals, iteration, front/back, at, [], conversions
static void battery(const Sup &s, const Grd &g, const std::vector<double> &p, W w, vf::Obs &o);
static void check_single(const SupC &c, vf::Obs &o) {
  size_t n = (size_t)c.n;
  auto p = pts(n);
  Grd g(p);
  W w{c.s1, c.e1};
  Sup s(g, (size_t)w.s, (size_t)w.e);
  battery(s, g, p, w, o);
}
// every accessor of ONE support against the set model: the support is expected to be the window w of the grid g (points p)
static void battery(const Sup &s, const Grd &g, const std::vector<double> &p, W w, vf::Obs &o) {
  const size_t n = p.size();
  if (w.empty()) o.cls("empty");
  else if (w.size() == 1) o.cls("point");
  else o.cls("intervals");
  o.nt(true);
  VCHECK(o, s.size() == (size_t)w.size(), "size() = " << s.size() << " for window [" << w.s << "," << w.e << ")");
  VCHECK(o, s.empty() == w.empty(), "empty() wrong");
  VCHECK(o, s.numberOfIntervals() == (size_t)(w.size() >= 2 ? w.size() - 1 : 0), "numberOfIntervals() wrong");
  VCHECK(o, s.containsIntervals() == (w.size() >= 2), "containsIntervals() wrong");
  VCHECK(o, (i64)std::distance(s.begin(), s.end()) == w.size(), "iterator distance != size");
  {
    i64 k = 0;
    for (const auto &x : s) {
      VCHECK(o, x == p[(size_t)(w.s + k)], "iteration yields wrong point at " << k);
      k++;
    }
    VCHECK(o, k == w.size(), "iteration count wrong");
  }
  for (int which = 0; which < 2; which++) {
    bool threw = false;
    double v = 0;
    try {
      v = which ? s.back() : s.front();
    } catch (const BSplineException &) {
      threw = true;
    }
    VCHECK(o, threw == w.empty(), (which ? "back()" : "front()") << (threw ? " threw on non-empty window" : " did not throw on empty window"));
    if (!threw) VCHECK(o, v == (which ? p[(size_t)w.e - 1] : p[(size_t)w.s]), (which ? "back()" : "front()") << " reports the wrong point");
  }
  VCHECK(o, s.getGrid() == g && s.hasSameGrid(s), "getGrid()/hasSameGrid wrong");
  for (size_t idx : index_values(n)) {
    // relative index idx
    bool in_rel = idx < (size_t)w.size();
    {
      bool threw = false;
      double v = 0;
      try { v = s.at(idx); } catch (const BSplineException &) { threw = true; }
      VCHECK(o, threw == !in_rel, "at(" << idx << ")" << (threw ? " threw for contained index" : " did not throw for index outside the view") << " window [" << w.s << "," << w.e << ")");
      if (!threw) VCHECK(o, v == p[(size_t)w.s + idx], "at(" << idx << ") wrong element");
    }
    {
      bool threw = false;
      size_t a = 0;
      try { a = s.absoluteFromRelative(idx); } catch (const BSplineException &) { threw = true; }
      VCHECK(o, threw == !in_rel, "absoluteFromRelative(" << idx << ")" << (threw ? " threw for contained index" : " did not throw for uncontained index"));
      if (!threw) {
        VCHECK(o, a == (size_t)w.s + idx, "absoluteFromRelative(" << idx << ") = " << a);
        auto back = s.relativeFromAbsolute(a);
        VCHECK(o, back && *back == idx, "relativeFromAbsolute(absoluteFromRelative(r)) != r for r=" << idx);
        VCHECK(o, s[idx] == p[a], "operator[] wrong element");
      }
    }
    // absolute index idx
    bool in_abs = !w.empty() && idx >= (size_t)w.s && idx < (size_t)w.e;
    bool in_int = in_abs && idx + 1 < (size_t)w.e;  // idx and idx+1 both contained (no wrap: idx < e)
    {
      auto r = s.relativeFromAbsolute(idx);
      VCHECK(o, r.has_value() == in_abs, "relativeFromAbsolute(" << idx << ") has_value=" << r.has_value() << " window [" << w.s << "," << w.e << ")");
      if (r) {
        VCHECK(o, *r == idx - (size_t)w.s, "relativeFromAbsolute(" << idx << ") = " << *r);
        VCHECK(o, s.absoluteFromRelative(*r) == idx, "absoluteFromRelative(relativeFromAbsolute(i)) != i");
      }
      auto q = s.intervalIndexFromAbsolute(idx);
      VCHECK(o, q.has_value() == in_int, "intervalIndexFromAbsolute(" << idx << ") has_value=" << q.has_value() << " window [" << w.s << "," << w.e << ")");
      if (q) VCHECK(o, *q == idx - (size_t)w.s, "intervalIndexFromAbsolute(" << idx << ") = " << *q);
    }
    // Grid::at
    {
      bool threw = false;
      double v = 0;
      try { v = g.at(idx); } catch (const BSplineException &) { threw = true; }
      VCHECK(o, threw == (idx >= n), "Grid::at(" << idx << ") throw behaviour wrong");
      if (!threw) VCHECK(o, v == p[idx], "Grid::at wrong element");
    }
  }
}

static Grd other_grid(const Grd &g, size_t n, i64 mode, bool &equal_content) {
  auto p = pts(n);
  equal_content = true;
  switch (mode) {
    case 0: return g;
    case 1:  // equal points in a distinct object; a zero point gets the other sign (logically equal, not bitwise identical)
      for (auto &x : p) if (x == 0.0) x = -0.0;
      return Grd(p);
    case 2: p[n / 2] += 0.125; equal_content = false; return Grd(p);
    case 3:
      if (n >= 3) { p.pop_back(); equal_content = false; }
      return Grd(p);
    case 4: p.push_back(p.back() + 1); equal_content = false; return Grd(p);
    default: {
      // modes 5..: the LAST d points shifted (grids of equal size differing in exactly d positions), d from a list that
      // includes the wrap-around values of narrow counters
      static const size_t ds[] = {2, 3, 255, 256, 257, 512, 65536, ~size_t(0)};
      size_t d = std::min(n, ds[(size_t)(mode - 5) % 8]);
      for (size_t i = n - d; i < n; i++) p[i] += 0.125;
      equal_content = false;
      return Grd(p);
    }
  }
}

static void check_pair(const SupC &c, vf::Obs &o) {
  size_t n = (size_t)c.n;
  Grd g(pts(n));
  W w1{c.s1, c.e1}, w2{c.s2, c.e2};
  bool eqc = true;
  Grd g2 = other_grid(g, n, c.gridmode, eqc);
  if ((size_t)w2.e > g2.size()) { w2.e = (i64)g2.size(); if (w2.s >= w2.e) w2 = {0, 0}; }
  Sup a(g, (size_t)w1.s, (size_t)w1.e), b(g2, (size_t)w2.s, (size_t)w2.e);
  o.cls(std::string("gridmode:") + std::to_string(c.gridmode));
  o.cls(std::string("placement:") + placement_name(classify_pair(w1.s, w1.e, w2.s, w2.e)));
  o.nt(w1.size() <= 1 || w2.size() <= 1 || c.gridmode != 0 || classify_pair(w1.s, w1.e, w2.s, w2.e) != P_IDENT);
  bool expect_eq = eqc && ((w1.s == w2.s && w1.e == w2.e) || (w1.empty() && w2.empty()));
  VCHECK(o, (a == b) == expect_eq, "a == b is " << (a == b) << ", expected " << expect_eq);
  VCHECK(o, (b == a) == expect_eq, "equality not symmetric");
  VCHECK(o, (a != b) == !expect_eq, "!= is not the negation of ==");
  VCHECK(o, a == a && !(a != a), "equality not reflexive");
  VCHECK(o, a.hasSameGrid(b) == eqc && b.hasSameGrid(a) == eqc, "hasSameGrid wrong");
  { Sup cp(a); VCHECK(o, cp == a, "copy != original"); }
  if (!eqc) {
    for (int op = 0; op < 2; op++) {
      bool threw = false;
      try {
        Sup r = op ? a.calcIntersection(b) : a.calcUnion(b);
        (void)r;
      } catch (const BSplineException &e) {
        threw = e.getErrorCode() == bspline::exceptions::ErrorCode::DIFFERING_GRIDS;
      }
      VCHECK(o, threw, (op ? "calcIntersection" : "calcUnion") << " on different grids did not throw DIFFERING_GRIDS");
    }
    return;
  }
  Sup u = a.calcUnion(b), u2 = b.calcUnion(a), i = a.calcIntersection(b), i2 = b.calcIntersection(a);
  for (const Sup *x : {&u, &u2, &i, &i2}) {
    std::string inv = support_invariant(*x);
    VCHECK(o, inv.empty(), "result invalid: " << inv);
  }
  VCHECK(o, same(u, hull(w1, w2)), "union [" << u.getStartIndex() << "," << u.getEndIndex() << ") expected [" << hull(w1, w2).s << "," << hull(w1, w2).e << ")");
  VCHECK(o, same(i, inter(w1, w2)), "intersection [" << i.getStartIndex() << "," << i.getEndIndex() << ") expected [" << inter(w1, w2).s << "," << inter(w1, w2).e << ")");
  VCHECK(o, u == u2, "union not commutative");
  VCHECK(o, i == i2, "intersection not commutative");
  VCHECK(o, a.calcUnion(a) == a && a.calcIntersection(a) == a, "not idempotent");
  // absorption (derived from the set model)
  VCHECK(o, a.calcIntersection(u) == a || w1.empty(), "a ^ (a u b) != a");
  VCHECK(o, u.hasSameGrid(a) && i.hasSameGrid(a), "result lives on another grid");
}

static void check_triple(const SupC &c, vf::Obs &o) {
  size_t n = (size_t)c.n;
  Grd g(pts(n));
  W w1{c.s1, c.e1}, w2{c.s2, c.e2}, w3{c.s3, c.e3};
  Sup a(g, (size_t)w1.s, (size_t)w1.e), b(g, (size_t)w2.s, (size_t)w2.e), d(g, (size_t)w3.s, (size_t)w3.e);
  o.nt(!(w1.s == w2.s && w1.e == w2.e && w2.s == w3.s && w2.e == w3.e));
  Sup l = a.calcUnion(b).calcUnion(d), r = a.calcUnion(b.calcUnion(d));
  VCHECK(o, l == r, "union not associative");
  VCHECK(o, same(l, hull(hull(w1, w2), w3)), "triple union wrong");
  Sup li = a.calcIntersection(b).calcIntersection(d), ri = a.calcIntersection(b.calcIntersection(d));
  VCHECK(o, li == ri, "intersection not associative");
  VCHECK(o, same(li, inter(inter(w1, w2), w3)), "triple intersection wrong");
}

// moved-from supports (move construction and move assignment) are empty supports like any other, and the moved-to
// object is the former window: equality, union, intersection and the accessors must not be able to tell the difference
static void check_moved(const SupC &c, vf::Obs &o) {
  size_t n = (size_t)c.n;
  Grd g(pts(n));
  W w1{c.s1, c.e1}, w2{c.s2, c.e2};
  bool eqc = true;
  Grd g2 = other_grid(g, n, c.gridmode <= 1 ? c.gridmode : 1, eqc);  // shared instance or equal grid in a distinct object
  o.nt(true);
  Sup src(g, (size_t)w1.s, (size_t)w1.e);
  Sup dst(std::move(src));                                   // move construction
  Sup src2(g2, (size_t)w2.s, (size_t)w2.e), dst2(g, 0, 0);
  dst2 = std::move(src2);                                    // move assignment
  Sup fresh1(g, (size_t)w1.s, (size_t)w1.e), fresh2(g2, (size_t)w2.s, (size_t)w2.e), empty(Sup::createEmpty(g)), empty2(Sup::createEmpty(g2));
  VCHECK(o, dst == fresh1 && fresh1 == dst && !(dst != fresh1), "move-constructed support is not equal to the window it was moved from");
  VCHECK(o, dst2 == fresh2 && fresh2 == dst2, "move-assigned support is not equal to the window it was moved from");
  for (const Sup *m : {&src, &src2}) {
    VCHECK(o, support_invariant(*m).empty(), "moved-from support invalid: " << support_invariant(*m));
    VCHECK(o, m->empty() && m->size() == 0 && m->numberOfIntervals() == 0 && m->begin() == m->end(), "moved-from support is not empty");
    VCHECK(o, *m == empty && empty == *m && *m == empty2 && !(*m != empty), "moved-from support is not equal to an empty support on an equal grid");
    VCHECK(o, *m == *m, "moved-from support not equal to itself");
    VCHECK(o, m->calcUnion(*m) == *m && m->calcIntersection(*m) == *m, "union / intersection of a moved-from support with itself is not itself");
    VCHECK(o, m->calcUnion(fresh1) == fresh1 && fresh1.calcUnion(*m) == fresh1, "union with a moved-from support is not the other operand");
    VCHECK(o, m->calcIntersection(fresh1) == empty && fresh1.calcIntersection(*m).empty(), "intersection with a moved-from support is not empty");
    { Sup i = fresh1.calcIntersection(Sup(g, 0, 1).calcIntersection(Sup(g, n - 1, n))); VCHECK(o, *m == i, "moved-from support differs from an empty intersection result"); }
    VCHECK(o, !m->relativeFromAbsolute(0).has_value() && !m->intervalIndexFromAbsolute(0).has_value() && !m->relativeFromAbsolute((size_t)w1.s).has_value(), "moved-from support contains an index");
    bool threw = false;
    try { (void)m->front(); } catch (const BSplineException &) { threw = true; }
    VCHECK(o, threw, "front() of a moved-from support did not throw");
  }
  VCHECK(o, src == src2 && src2 == src, "two moved-from supports (from different windows) compare unequal");
}

// A support that is RE-SEATED - assigned, move-assigned or swapped onto another window of another grid (shared, equal in a
// distinct object, or logically different, also of another size) - is afterwards that window of that grid for EVERY
// accessor: size, iteration, front/back, at, operator[], index conversions, equality, union, intersection.
static void check_reseated(const SupC &c, vf::Obs &o) {
  size_t n = (size_t)c.n;
  auto p = pts(n);
  Grd g(p);
  W w1{c.s1, c.e1};
  bool eqc = true;
  Grd g2 = other_grid(g, n, c.gridmode, eqc);
  const size_t n2 = g2.size();
  W w2{std::min<i64>(c.s2, (i64)n2), std::min<i64>(c.e2, (i64)n2)};
  if (w2.e <= w2.s) w2 = W{0, 0};
  o.nt(true);
  o.cls("gridmode:" + std::to_string(std::min<i64>(c.gridmode, 5)));
  const int how = (int)(((c.s3 % 6) + 6) % 6);
  o.cls("reseat:" + std::to_string(how));
  Sup t(g2, (size_t)w2.s, (size_t)w2.e);          // the object that gets re-seated: starts as window w2 of the OTHER grid
  if (!t.empty()) { (void)t.front(); (void)t.back(); (void)t[0]; }  // use it first: whatever it caches is now filled
  for (const auto &x : t) (void)x;
  Sup src(g, (size_t)w1.s, (size_t)w1.e);
  switch (how) {
    case 0: t = src; break;                                            // copy assignment
    case 1: t = std::move(src); break;                                 // move assignment
    case 2: { std::swap(t, src); break; }                              // swap (move construction + two move assignments)
    case 3: { Sup tmp(std::move(src)); t = std::move(tmp); break; }    // through a move-constructed temporary
    case 4: { t = Sup::createEmpty(g2); t = src; break; }              // via an empty support first
    default: { Sup mid(g2, 0, n2); mid = src; t = mid; t = std::move(mid); break; }
  }
  battery(t, g, p, w1, o);
  Sup fresh(g, (size_t)w1.s, (size_t)w1.e);
  VCHECK(o, t == fresh && fresh == t && !(t != fresh), "re-seated support is not equal to a fresh support on its new window");
  VCHECK(o, t.calcUnion(fresh) == fresh && t.calcIntersection(fresh) == fresh, "union / intersection of a re-seated support with its fresh twin is not the window");
  if (how == 2) {  // after a swap the other object is the former t
    std::vector<double> p2;
    for (size_t i = 0; i < n2; i++) p2.push_back(g2[i]);
    battery(src, g2, p2, w2, o);
  }
  if (how == 1 || how == 3) VCHECK(o, src.empty() && support_invariant(src).empty(), "moved-from support is not a valid empty support");
}

// A few supports live for the whole process. Every case compares one of them with supports on freshly built grids
// that die at the end of the case: equal content in a distinct object, or different content. Whatever a long-lived
// object remembers about an earlier comparison partner (by address!) must not leak into a later comparison. Together
// with the zero-quarantine process (freed blocks are recycled at once) this exercises address reuse.
static void check_longlived(const SupC &c, vf::Obs &o) {
  static std::map<size_t, std::unique_ptr<Sup>> pool;
  size_t n = (size_t)std::min<i64>(c.n, 40);
  if (n < 2) n = 2;
  auto &slot = pool[n];
  if (!slot) slot = std::make_unique<Sup>(Grd(pts(n)), 0, n);
  const Sup &L = *slot;
  o.nt(true);
  bool eqc = true;
  i64 mode = c.gridmode == 0 ? 1 : c.gridmode;  // never the shared instance here
  if (mode > 5) mode = 5 + (mode % 3);
  {
    Grd g2 = other_grid(Grd(pts(n)), n, mode, eqc);
    Sup fresh(g2, 0, std::min(n, g2.size()));
    bool expect = eqc && fresh.size() == n;
    VCHECK(o, L.hasSameGrid(fresh) == eqc && fresh.hasSameGrid(L) == eqc, "hasSameGrid between a long-lived support and a fresh grid (relation " << mode << ") is wrong: the answer depends on earlier comparisons");
    VCHECK(o, (L == fresh) == expect && (fresh == L) == expect && (L != fresh) == !expect, "equality between a long-lived support and a support on a fresh grid (relation " << mode << ") is wrong");
    VCHECK(o, (L.getGrid() == g2) == eqc && (g2 == L.getGrid()) == eqc, "Grid equality between a long-lived grid and a fresh grid (relation " << mode << ") is wrong");
    bool threw = false;
    try { Sup u = L.calcUnion(fresh); (void)u; } catch (const BSplineException &) { threw = true; }
    VCHECK(o, threw == !eqc, "calcUnion of a long-lived support with a support on a fresh grid " << (threw ? "threw although the grids are equal" : "did not throw although the grids differ"));
    o.cls(eqc ? "fresh:equal-distinct" : "fresh:different");
  }  // the fresh grid dies here
}

static std::vector<W> windows(i64 n) {
  std::vector<W> v{{0, 0}};
  for (i64 s = 0; s < n; s++)
    for (i64 e = s + 1; e <= n; e++) v.push_back({s, e});
  return v;
}

static i64 g_maxn = 6;

int main(int argc, char **argv) {
  for (int i = 1; i < argc; i++)
    if (std::string(argv[i]) == "--maxn" && i + 1 < argc) {
      g_maxn = atoi(argv[i + 1]);
      for (int j = i; j + 2 < argc; j++) argv[j] = argv[j + 2];
      argc -= 2;
      break;
    }
  auto guarded = [](void (*fn)(const SupC &, vf::Obs &), const SupC &c, vf::Obs &o) {
    vf::ctx().cur_case = vf::to_text(c);
    try {
      fn(c, o);
    } catch (const std::exception &e) {
      o.fail(std::string("unexpected exception: ") + e.what());
    }
  };
  vf::add_enum_sub(
      "enum-single",
      [guarded](vf::Sub &s, double) {
        for (i64 n = 2; n <= g_maxn; n++)
          for (W w : windows(n)) {
            SupC c; c.n = n; c.s1 = w.s; c.e1 = w.e;
            vf::Obs o; guarded(check_single, c, o);
            if (!vf::emit(s, vf::to_text(c), o)) return;
          }
      },
      [](const std::string &t, vf::Obs &o) { check_single(vf::from_text<SupC>(t), o); });
  vf::add_enum_sub(
      "enum-pairs",
      [guarded](vf::Sub &s, double) {
        for (i64 n = 2; n <= g_maxn; n++)
          for (W w1 : windows(n))
            for (W w2 : windows(n))
              for (i64 gm = 0; gm <= 4; gm++) {
                SupC c; c.n = n; c.s1 = w1.s; c.e1 = w1.e; c.s2 = w2.s; c.e2 = w2.e; c.gridmode = gm;
                vf::Obs o; guarded(check_pair, c, o);
                if (!vf::emit(s, vf::to_text(c), o)) return;
              }
      },
      [](const std::string &t, vf::Obs &o) { check_pair(vf::from_text<SupC>(t), o); });
  vf::add_enum_sub(
      "enum-triples",
      [guarded](vf::Sub &s, double) {
        for (i64 n = 2; n <= g_maxn; n++)
          for (W w1 : windows(n))
            for (W w2 : windows(n))
              for (W w3 : windows(n)) {
                SupC c; c.n = n; c.s1 = w1.s; c.e1 = w1.e; c.s2 = w2.s; c.e2 = w2.e; c.s3 = w3.s; c.e3 = w3.e;
                vf::Obs o; guarded(check_triple, c, o);
                if (!vf::emit(s, vf::to_text(c), o)) return;
              }
      },
      [](const std::string &t, vf::Obs &o) { check_triple(vf::from_text<SupC>(t), o); });
  vf::add_enum_sub(
      "enum-moved",
      [guarded](vf::Sub &s, double) {
        for (i64 n = 2; n <= std::min<i64>(g_maxn, 7); n++)
          for (W w1 : windows(n))
            for (W w2 : windows(n))
              for (i64 gm = 0; gm <= 1; gm++) {
                SupC c; c.n = n; c.s1 = w1.s; c.e1 = w1.e; c.s2 = w2.s; c.e2 = w2.e; c.gridmode = gm;
                vf::Obs o; guarded(check_moved, c, o);
                if (!vf::emit(s, vf::to_text(c), o)) return;
              }
      },
      [](const std::string &t, vf::Obs &o) { check_moved(vf::from_text<SupC>(t), o); });
  vf::add_enum_sub(
      "enum-reseated",
      [guarded](vf::Sub &s, double) {
        for (i64 n = 2; n <= std::min<i64>(g_maxn, 5); n++)
          for (W w1 : windows(n))
            for (W w2 : windows(n))
              for (i64 gm = 0; gm <= 4; gm++)
                for (i64 how = 0; how < 6; how++) {
                  SupC c; c.n = n; c.s1 = w1.s; c.e1 = w1.e; c.s2 = w2.s; c.e2 = w2.e; c.gridmode = gm; c.s3 = how;
                  vf::Obs o; guarded(check_reseated, c, o);
                  if (!vf::emit(s, vf::to_text(c), o)) return;
                }
      },
      [](const std::string &t, vf::Obs &o) { check_reseated(vf::from_text<SupC>(t), o); });
  auto gen = rc::gen::exec([] {
    SupC c;
    c.n = chance(30) ? pick(2, 12) : pick(13, 200);
    int pl = gen_placement();
    gen_pair((size_t)c.n, pl, c.s1, c.e1, c.s2, c.e2);
    gen_window((size_t)c.n, c.s3, c.e3);
    c.gridmode = *rc::gen::weightedElement<i64>({{4, 0}, {3, 1}, {1, 2}, {1, 3}, {1, 4}, {3, 5}});
    if (c.gridmode == 5) { c.gridmode = pick(5, 12); c.n = pick(2, 1100); gen_pair((size_t)c.n, pl, c.s1, c.e1, c.s2, c.e2); gen_window((size_t)c.n, c.s3, c.e3); }
    return c;
  });
  vf::add_sub<SupC>("random-single", 300, gen, check_single);
  vf::add_sub<SupC>("random-pairs", 3000, gen, check_pair);
  vf::add_sub<SupC>("random-triples", 3000, gen, check_triple);
  vf::add_sub<SupC>("random-moved", 1000, gen, check_moved);
  vf::add_sub<SupC>("random-reseated", 2000, gen, check_reseated);
  vf::add_sub<SupC>("long-lived-vs-fresh", 4000, rc::gen::exec([] {
    SupC c; c.n = pick(2, 12); c.gridmode = *rc::gen::weightedElement<i64>({{5, 1}, {3, 2}, {1, 3}, {1, 4}, {2, 5}}); return c; }), check_longlived);
  return vf::main_impl(argc, argv, "C13", true);
}
