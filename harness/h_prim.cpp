// C04 -- primitive operators are d^n/dx^n and multiplication by x^n on every
// interval; identity returns an equal spline; results vanish outside the operand.
#include "common/cases.h"

using namespace vc;
using namespace bspline::operators;

struct PrimC {
  GridC g;
  SplineC s;
  i64 order = 0, n = 0, kind = 0, type = 0;  // kind 0 Dx<n>, 1 X<n>, 2 identity; type 0 Q, 1 double, 2 long double
  i64 sexp = 0;  // built-in floats: grid scaled by 2^sexp, coefficient k by 2^(-sexp*k) - the same function on another length scale, every operation still exact
  template <class A>
  void io(A &a) { a("g", g); a("s", s); a("order", order); a("n", n); a("kind", kind); a("type", type); a("sexp", sexp); }
};

template <class T, size_t order, size_t n, int KINDS>
static void prim_T(const PrimC &c, vf::Obs &o) {
  int sexp = 0;
  if constexpr (std::is_floating_point_v<T>) sexp = (int)std::max<i64>(-110, std::min<i64>(110, c.sexp));  // 2^(110*8) stays finite in double
  std::vector<T> gv = c.g.values<T>();
  std::vector<std::array<T, order + 1>> cof(c.s.nint());
  for (size_t i = 0; i < cof.size(); i++) for (size_t k = 0; k <= order; k++) cof[i][k] = c.s.coeffT<T>(order, i, k);
  if constexpr (std::is_floating_point_v<T>) if (sexp != 0) {
    for (auto &v : gv) v = std::ldexp(v, sexp);
    for (auto &a : cof) for (size_t k = 0; k <= order; k++) a[k] = std::ldexp(a[k], -sexp * (int)k);
    o.cls(sexp < -53 ? "scale:points-below-epsilon" : sexp < 0 ? "scale:small" : "scale:large");
  }
  bspline::support::Grid<T> grid(gv);
  const bspline::Spline<T, order> s(bspline::support::Support<T>(grid, (size_t)c.s.s, (size_t)c.s.e), cof);
  const auto s0 = s;
  ref::Fn f = sexp == 0 ? model_of(c.g, c.s, order) : denote(s);  // scaled: the stored function itself (exact conversion)
  VCHECK(o, ref::first_diff(denote(s), f) == -1, "input spline does not denote the case model (inexact input?)");
  bool nonzero = !ref::is_zero(f);
  bool sub = !(c.s.s == 0 && c.s.e == (i64)c.g.n());
  R maxabs = 0;
  for (auto &p : f.grid) if (abs(p) > maxabs) maxabs = abs(p);
  o.cls(std::string("type:") + Scalar<T>::name);
  auto verify = [&](const auto &res, const ref::Fn &expect, const char *what, size_t expect_order) {
    std::string inv = spline_invariant(res);
    VCHECK(o, inv.empty(), what << ": invalid result: " << inv);
    VCHECK(o, std::remove_reference_t<decltype(res)>::spline_order == expect_order, what << ": result order " << std::remove_reference_t<decltype(res)>::spline_order);
    ref::Fn got = denote(res);
    long d = ref::first_diff(got, expect);
    VCHECK(o, d == -1, what << ": differs on grid interval " << d << "; got" << ref::str(got) << " expected" << ref::str(expect));
    // nothing outside the operand's support
    for (size_t j = 0; j < got.nint(); j++)
      if (!((i64)j >= c.s.s && (i64)j + 1 < c.s.e)) VCHECK(o, ref::is_zero(got.piece[j]), what << ": non-zero outside the operand's support at interval " << j);
    VCHECK(o, res.getSupport() == s.getSupport(), what << ": window differs from the operand's window");
  };
  if constexpr ((KINDS & 1) != 0) if (c.kind == 0) {
    o.cls("Dx<" + std::to_string(n) + ">@order" + std::to_string(order));
    auto r = Dx<n>{} * s;
    verify(r, ref::deriv(f, n), "Dx<n>*s", n > order ? 0 : order - n);
    auto r2 = transformSpline(Dx<n>{}, s);
    VCHECK(o, r2 == r, "transformSpline and operator* disagree");
    o.nt(nonzero && (n + 1 >= order || maxabs > 4 || sub));
  }
  if constexpr ((KINDS & 2) != 0) if (c.kind == 1) {
    if constexpr (order <= 4) {
      o.cls("X<" + std::to_string(n) + ">@order" + std::to_string(order));
      auto r = X<n>{} * s;
      verify(r, ref::mulx(f, n), "X<n>*s", order + n);
      o.nt(nonzero && (maxabs > 4 || sub || n >= 2));
    } else {
      o.discard("X on order 5 not in matrix");
    }
  }
  if constexpr ((KINDS & 2) != 0) if (c.kind != 0 && c.kind != 1) {
    o.cls("identity@order" + std::to_string(order));
    auto r = IdentityOperator{} * s;
    verify(r, f, "I*s", order);
    VCHECK(o, r == s, "identity result is not equal (operator==) to the operand");
    auto d0 = Dx<0>{} * s;
    VCHECK(o, d0 == s, "Dx<0> result is not equal to the operand");
    auto x0 = X<0>{} * s;
    VCHECK(o, x0 == s, "X<0> result is not equal to the operand");
    o.nt(nonzero && sub);
  }
  VCHECK(o, s == s0, "operand modified by operator application");
}

#ifndef VERIF_PART
#define VERIF_PART -1  // single-TU build: everything
#endif
#define PART(k) (VERIF_PART == -1 || VERIF_PART == (k))
void prim_q_dx(const PrimC &c, vf::Obs &o);
void prim_q_x(const PrimC &c, vf::Obs &o);
void prim_double(const PrimC &c, vf::Obs &o);
void prim_ldouble(const PrimC &c, vf::Obs &o);
void prim_long(const PrimC &c, vf::Obs &o);
void prim_mpq(const PrimC &c, vf::Obs &o);
template <class T, size_t MAXN, int KINDS>
static void dispatch(const PrimC &c, vf::Obs &o) {
  size_t order = (size_t)std::min<i64>(std::max<i64>(c.order, 0), 5), n = (size_t)std::min<i64>(std::max<i64>(c.n, 0), (i64)MAXN);
  with_order<5>(order, [&](auto O) {
    with_order<MAXN>(n, [&](auto N) { prim_T<T, decltype(O)::value, decltype(N)::value, KINDS>(c, o); });
  });
}
#if PART(0)
void prim_q_dx(const PrimC &c, vf::Obs &o) { dispatch<Q, 5, 1>(c, o); }
#endif
#if PART(1)
void prim_q_x(const PrimC &c, vf::Obs &o) { dispatch<Q, 5, 2>(c, o); }
#endif
#if PART(2)
void prim_double(const PrimC &c, vf::Obs &o) { dispatch<double, 3, 3>(c, o); }
#endif
#if PART(3)
void prim_ldouble(const PrimC &c, vf::Obs &o) { dispatch<long double, 3, 3>(c, o); }
#endif
#if PART(4)
void prim_long(const PrimC &c, vf::Obs &o) { dispatch<long, 3, 3>(c, o); }
#endif
#if PART(5)
void prim_mpq(const PrimC &c, vf::Obs &o) { dispatch<mpq_class, 3, 3>(c, o); }
#endif

#if PART(0)
static void check_prim(const PrimC &c, vf::Obs &o) {
  if (c.type == 4 && c.n <= 3) prim_mpq(c, o);
  else if (c.type == 3 && c.n <= 3) prim_long(c, o);
  else if (c.type == 1 && c.n <= 3) prim_double(c, o);
  else if (c.type == 2 && c.n <= 3) prim_ldouble(c, o);
  else if (c.kind == 0) prim_q_dx(c, o);
  else prim_q_x(c, o);
}

int main(int argc, char **argv) {
  auto gen = rc::gen::exec([] {
    PrimC c;
    c.type = *rc::gen::weightedElement<i64>({{6, 0}, {1, 1}, {1, 2}, {1, 3}, {1, 4}});
    GridOpt go; go.dyadic = c.type != 0 && c.type != 4; go.max_abs = (c.type != 0 && c.type != 4) ? 8 : 64;
    c.g = gen_grid(go);
    if (c.type == 3) {  // integer-like scalar: integer grid points of equal parity (integer midpoints), integer coefficients
      c.g.den = 1;
      for (auto &gp : c.g.gaps) gp = 2 * std::min<i64>(gp, 3);
      c.g.off = pick(-9, 5);
    }
    c.kind = *rc::gen::weightedElement<i64>({{5, 0}, {5, 1}, {1, 2}});
    c.order = pick(0, c.kind == 1 ? 4 : 5);
    c.n = pick(0, (c.type != 0) ? 3 : 5);
    CoefOpt co; co.dyadic = c.type != 0 && c.type != 4; co.zero_spline_pct = 2;
    c.s = gen_spline(c.g.n(), (size_t)c.order, -1, co);
    if (c.type == 3) c.s.cden = 1;
    if ((c.type == 1 || c.type == 2) && chance(35)) c.sexp = chance(50) ? -pick(1, 110) : pick(1, 110);  // other length scales, down to grids that lie entirely below machine epsilon
    return c;
  });
  vf::add_sub<PrimC>("primitive-operators", 4000, gen, check_prim);
  return vf::main_impl(argc, argv, "C04");
}
#endif
