// C17 -- numerical quadrature matches the analytic forms where Gauss-Legendre
// is exact, and extends over exactly the intervals common to both supports.
#include <bspline/integration/numerical.h>

#include "common/cases.h"
#include "common/shadow.h"

using namespace vc;
namespace bo = bspline::operators;

struct QuadC {
  GridC g;
  SplineC m1, m2;
  i64 o1 = 0, o2 = 0, n = 1, type = 2, fden = 1, distinct = 0;  // distinct: m2 lives on an equal grid in a separately built object
  i64 stateless = 0;  // 1..3: the weight is one of three EMPTY functor types (fixed polynomials) instead of a capturing lambda
  i64 prelude = 0;    // first integrate the same functor type on ANOTHER grid with as many points, destroy it, then build the real one
  std::vector<i64> f;  // weight polynomial coefficients f_k / fden, degree = f.size()-1
  template <class A>
  void io(A &x) { x("g", g); x("m1", m1); x("m2", m2); x("o1", o1); x("o2", o2); x("n", n); x("type", type); x("fden", fden); x("f", f); x("distinct", distinct); x("stateless", stateless); x("prelude", prelude); }
};

// independent n-point Gauss-Legendre rule on [-1,1]: Newton iteration on the Legendre recurrence (long double)
static void gauss_rule(size_t n, std::vector<long double> &t, std::vector<long double> &w) {
  t.assign(n, 0); w.assign(n, 0);
  const long double pi = 3.14159265358979323846264338327950288L;
  for (size_t i = 0; i < n; i++) {
    long double x = cosl(pi * ((long double)i + 0.75L) / ((long double)n + 0.5L)), dp = 1;
    for (int it = 0; it < 100; it++) {
      long double p0 = 1, p1 = x;
      for (size_t k = 2; k <= n; k++) { long double p2 = ((2 * (long double)k - 1) * x * p1 - ((long double)k - 1) * p0) / (long double)k; p0 = p1; p1 = p2; }
      if (n == 0) p1 = 1;
      dp = (long double)n * (x * p1 - p0) / (x * x - 1);
      long double dx = p1 / dp;
      x -= dx;
      if (fabsl(dx) < 1e-21L) break;
    }
    long double p0 = 1, p1 = x;
    for (size_t k = 2; k <= n; k++) { long double p2 = ((2 * (long double)k - 1) * x * p1 - ((long double)k - 1) * p0) / (long double)k; p0 = p1; p1 = p2; }
    dp = (long double)n * (x * p1 - p0) / (x * x - 1);
    t[i] = x;
    w[i] = 2 / ((1 - x * x) * dp * dp);
  }
}

// stateless weights: empty functor types (whatever the library memoises per weight TYPE cannot tell two uses apart)
struct WA { template <class T> T operator()(const T &x) const { return static_cast<T>(1) + x * x; } };                                   // 1 + x^2
struct WB { template <class T> T operator()(const T &x) const { return x; } };                                                            // x
struct WC { template <class T> T operator()(const T &x) const { return x * x * x - static_cast<T>(2) * x + static_cast<T>(1) / static_cast<T>(2); } };  // x^3 - 2x + 1/2
// weights whose call operator returns a type NARROWER than the splines' scalar (a constant weight written `return 2;`):
// the integral is still formed in the splines' type
struct WInt { template <class T> int operator()(const T &) const { return 2; } };         // 2 (int)
struct WFloat { template <class T> float operator()(const T &) const { return 0.5f; } };  // 1/2 (float)
struct WBool { template <class T> bool operator()(const T &) const { return true; } };    // 1 (bool)
static const std::vector<i64> &stateless_coeffs(i64 k) {  // numerators over 2
  static const std::vector<i64> a{2, 0, 2}, b{0, 2}, cc{1, -4, 0, 2}, i2{4}, f05{1}, b1{2}, none;
  return k == 1 ? a : k == 2 ? b : k == 3 ? cc : k == 4 ? i2 : k == 5 ? f05 : k == 6 ? b1 : none;
}
template <size_t n, class F, class S1, class S2>
static auto integ(i64 k, const F &f, const S1 &m1, const S2 &m2) {
  switch (k) {
    case 1: return bspline::integration::integrate<n>(WA{}, m1, m2);
    case 2: return bspline::integration::integrate<n>(WB{}, m1, m2);
    case 3: return bspline::integration::integrate<n>(WC{}, m1, m2);
    case 4: return static_cast<decltype(bspline::integration::integrate<n>(f, m1, m2))>(bspline::integration::integrate<n>(WInt{}, m1, m2));
    case 5: return static_cast<decltype(bspline::integration::integrate<n>(f, m1, m2))>(bspline::integration::integrate<n>(WFloat{}, m1, m2));
    case 6: return static_cast<decltype(bspline::integration::integrate<n>(f, m1, m2))>(bspline::integration::integrate<n>(WBool{}, m1, m2));
    default: return bspline::integration::integrate<n>(f, m1, m2);
  }
}

template <class T, size_t o1, size_t o2, size_t n>
static void quad_T(const QuadC &c0, vf::Obs &o) {
  QuadC c = c0;
  if (c.stateless < 0 || c.stateless > 6) c.stateless = 0;
  if (c.stateless) { c.f = stateless_coeffs(c.stateless); c.fden = 2; o.cls(c.stateless >= 4 ? "weight:narrower-return-type" : "weight:stateless-functor"); } else o.cls("weight:capturing-lambda");
  if (c.prelude) {
    // the same template instantiation is first used on another grid with the same number of points, which dies before the real one is built
    o.cls("prelude:other-grid-of-equal-size-first");
    GridC g0 = c.g;
    g0.off = c.g.off + 1; for (size_t i = 0; i < g0.gaps.size(); i++) g0.gaps[i] = c.g.gaps[g0.gaps.size() - 1 - i] + (i64)(i % 2);
    auto pg = make_grid<T>(g0);
    const auto p1 = make_spline<T, o1>(pg, c.m1);
    const auto p2 = make_spline<T, o2>(pg, c.m2);
    std::vector<T> fp;
    for (auto v : c.f) fp.push_back(mk<T>(v, c.fden < 1 ? 1 : c.fden));
    if (fp.empty()) fp.push_back(mk<T>(1));
    auto fl = [&fp](const T &x) { T s = fp.back(); for (size_t k = fp.size() - 1; k-- > 0;) s = s * x + fp[k]; return s; };
    (void)integ<n>(c.stateless, fl, p1, p2);
  }
  auto grid = make_grid<T>(c.g);
  const auto m1 = make_spline<T, o1>(grid, c.m1);
  auto grid2 = make_equal_grid<T>(c.g);  // same points, separately constructed storage, a zero point of the other sign
  const auto m2 = make_spline<T, o2>(c.distinct ? grid2 : grid, c.m2);
  if (c.distinct) o.cls("second-operand:equal-grid-in-distinct-object");
  std::vector<R> pts = c.g.points();
  i64 fden = c.fden < 1 ? 1 : c.fden;
  std::vector<T> fT;
  ref::Poly fpoly;
  for (auto v : c.f) { fT.push_back(mk<T>(v, fden)); R r(v, fden); r.canonicalize(); fpoly.push_back(r); }
  if (fT.empty()) { fT.push_back(mk<T>(1)); fpoly.push_back(R(1)); }
  const size_t d = fT.size() - 1;
  auto f = [&fT](const T &x) { T s = fT.back(); for (size_t k = fT.size() - 1; k-- > 0;) s = s * x + fT[k]; return s; };
  T lib = integ<n>(c.stateless, f, m1, m2);
  if constexpr (o1 == o2) {
    // ONE spline object on both sides (a "diagonal element"): must equal the value for two equal objects
    if (c.m1.s == c.m2.s && c.m1.e == c.m2.e && c.m1.num == c.m2.num && c.m1.cden == c.m2.cden && c.m1.zmask == c.m2.zmask && !c.distinct) {
      o.cls("same-object-on-both-sides");
      T diag = integ<n>(c.stateless, f, m1, m1);
      VCHECK(o, exact(diag) == exact(lib), "integrate(f, s, s) with one object on both sides = " << exact(diag).get_d() << " differs from the value for two equal objects " << exact(lib).get_d());
    }
  }
  R got = exact(lib);

  // set model of the common intervals
  i64 lo = std::max(c.m1.s, c.m2.s), hi = std::min(c.m1.e, c.m2.e);
  bool share = c.m1.e - c.m1.s >= 2 && c.m2.e - c.m2.s >= 2 && hi - lo >= 2;
  int pl = classify_pair(c.m1.s, c.m1.e, c.m2.s, c.m2.e);
  bool exact_side = 2 * n - 1 >= o1 + o2 + d;
  o.cls(std::string("placement:") + placement_name(pl));
  o.cls(exact_side ? "side:exact" : "side:inexact");
  o.cls("n:" + std::to_string(n));
  o.cls(std::string("type:") + Scalar<T>::name);
  o.cls("degree:" + std::to_string(o1 + o2 + d));
  o.nt(share && (pl != P_IDENT || o1 != o2));
  if (!share) { VCHECK(o, got == 0, "numerical integral of splines without common interval is " << got.get_d() << ", expected 0"); return; }

  ref::Fn F1 = model_of(c.g, c.m1, o1), F2 = model_of(c.g, c.m2, o2);
  R eps(1);
  for (int b = 0; b < std::numeric_limits<T>::digits - 1; b++) eps /= 2;
  // shadow: integral of |m1|(|u|) * |f|(|u|+|xm|) * |m2|(|u|) over the common intervals
  R S(0), exact_val(0), gl_val(0);
  std::vector<long double> t, w;
  gauss_rule(n, t, w);
  for (size_t j = (size_t)lo; (i64)j + 1 < hi; j++) {
    R h = (pts[j + 1] - pts[j]) / 2, xm = (pts[j] + pts[j + 1]) / 2;
    std::vector<R> c1(o1 + 1), c2(o2 + 1);
    for (size_t k = 0; k <= o1; k++) c1[k] = c.m1.coeff(o1, j - (size_t)c.m1.s, k);
    for (size_t k = 0; k <= o2; k++) c2[k] = c.m2.coeff(o2, j - (size_t)c.m2.s, k);
    Sh fs;  // |f|(|u| + |xm|) expanded in |u|
    { Sh acc; Sh lin{absr(xm), R(1)}; Sh pw{R(1)}; for (size_t k = 0; k < fpoly.size(); k++) { acc = sh_add(acc, sh_scale(pw, fpoly[k])); pw = sh_mul(pw, lin); } fs = acc; }
    S += sh_integral(sh_mul(sh_mul(sh_abs(c1), fs), sh_abs(c2)), h);
    ref::Poly g = ref::mul(ref::mul(ref::trimmed(F1.piece[j]), ref::trimmed(fpoly)), ref::trimmed(F2.piece[j]));
    exact_val += ref::integral(g, pts[j], pts[j + 1]);
    for (size_t i = 0; i < n; i++) gl_val += h * exact((long double)w[i]) * ref::eval(g, xm + h * exact((long double)t[i]));
  }
  R tol = R(1 << 12) * eps * S;
  double r_gl = S == 0 ? 0 : R(absr(got - gl_val) / (eps * S)).get_d();
  vf::metric_max(std::string("max_error_vs_independent_GL_in_eps_units/") + Scalar<T>::name, r_gl);
  VCHECK(o, absr(got - gl_val) <= tol, "integrate<" << n << "> = " << got.get_d() << " differs from an independent " << n << "-point Gauss-Legendre sum over exactly the common intervals (" << gl_val.get_d() << ") by " << r_gl << " eps*S");
  if (exact_side) {
    double r_ex = S == 0 ? 0 : R(absr(got - exact_val) / (eps * S)).get_d();
    vf::metric_max(std::string("max_error_vs_analytic_in_eps_units/") + Scalar<T>::name, r_ex);
    VCHECK(o, absr(got - exact_val) <= tol, "integrate<" << n << "> = " << got.get_d() << " but the analytic form (2n-1 >= " << o1 + o2 + d << ") is " << exact_val.get_d() << ": off by " << r_ex << " eps*S");
    // the library's own analytic bilinear form with f as operator, for polynomial weights up to degree 2
    if (d <= 2) {
      T an;
      T f0 = fT[0], f1 = d >= 1 ? fT[1] : mk<T>(0), f2 = d >= 2 ? fT[2] : mk<T>(0);
      an = bspline::integration::BilinearForm{bo::IdentityOperator{}, f0 * bo::X<0>{} + f1 * bo::X<1>{} + f2 * bo::X<2>{}}(m1, m2);
      VCHECK(o, absr(exact(an) - got) <= 2 * tol, "numerical integral and analytic BilinearForm with f as operator disagree: " << got.get_d() << " vs " << exact(an).get_d());
    }
  }
  // additivity over single-interval restrictions of m1
  {
    R sum(0);
    for (size_t j = (size_t)c.m1.s; (i64)j + 1 < c.m1.e; j++) {
      SplineC r1 = c.m1;
      r1.s = (i64)j; r1.e = (i64)j + 2;
      // same coefficients for that interval: rebuild the numerator list
      r1.num.clear(); r1.zmask = 0;
      for (size_t k = 0; k <= o1; k++) { R v = c.m1.coeff(o1, j - (size_t)c.m1.s, k) * R(c.m1.cden < 1 ? 1 : c.m1.cden); r1.num.push_back(v.get_num().get_si()); }
      auto piece = make_spline<T, o1>(grid, r1);
      sum += exact(integ<n>(c.stateless, f, piece, m2));
    }
    VCHECK(o, absr(sum - got) <= 2 * tol, "integral is not additive over single-interval restrictions of m1: " << sum.get_d() << " vs " << got.get_d());
  }
}

#ifndef VERIF_PART
#define VERIF_PART -1
#endif
#define PART(k) (VERIF_PART == -1 || VERIF_PART == (k))
template <class T, size_t NLO, size_t NHI>
static void dispatch(const QuadC &c, vf::Obs &o) {
  size_t o1 = (size_t)std::min<i64>(std::max<i64>(c.o1, 0), 3), o2 = (size_t)std::min<i64>(std::max<i64>(c.o2, 0), 3);
  size_t n = (size_t)std::min<i64>(std::max<i64>(c.n, (i64)NLO), (i64)NHI);
  with_order<3>(o1, [&](auto A) { with_order<3>(o2, [&](auto B) { with_order<NHI - NLO>(n - NLO, [&](auto N) { quad_T<T, decltype(A)::value, decltype(B)::value, decltype(N)::value + NLO>(c, o); }); }); });
}
void q_d_lo(const QuadC &c, vf::Obs &o); void q_d_hi(const QuadC &c, vf::Obs &o); void q_ld_lo(const QuadC &c, vf::Obs &o); void q_ld_hi(const QuadC &c, vf::Obs &o);
#if PART(0)
void q_d_lo(const QuadC &c, vf::Obs &o) { dispatch<double, 1, 3>(c, o); }
#endif
#if PART(1)
void q_d_hi(const QuadC &c, vf::Obs &o) { dispatch<double, 4, 6>(c, o); }
#endif
#if PART(2)
void q_ld_lo(const QuadC &c, vf::Obs &o) { dispatch<long double, 1, 3>(c, o); }
#endif
#if PART(3)
void q_ld_hi(const QuadC &c, vf::Obs &o) { dispatch<long double, 4, 6>(c, o); }
#endif
#if PART(0)
static void check_quad(const QuadC &c, vf::Obs &o) {
  bool ld = c.type == 3, hiN = c.n >= 4;
  if (ld) { if (hiN) q_ld_hi(c, o); else q_ld_lo(c, o); } else { if (hiN) q_d_hi(c, o); else q_d_lo(c, o); }
}
int main(int argc, char **argv) {
  auto gen = rc::gen::exec([] {
    QuadC c;
    c.type = chance(50) ? 2 : 3;
    GridOpt go; go.dyadic = true; go.max_abs = 8; go.max_n = 8;
    c.g = gen_grid(go);
    c.o1 = pick(0, 3); c.o2 = pick(0, 3); c.n = pick(1, 6);
    gen_pair(c.g.n(), gen_placement(), c.m1.s, c.m1.e, c.m2.s, c.m2.e);
    CoefOpt co; co.dyadic = true; co.max_num = 8;
    gen_coeffs(c.m1, 3, co); gen_coeffs(c.m2, 3, co);
    c.distinct = chance(40);
    int d = (int)pick(0, 3);
    c.fden = one_of<i64>({1, 2, 4});
    for (int k = 0; k <= d; k++) c.f.push_back(k == d ? (chance(50) ? pick(1, 6) : -pick(1, 6)) : pick(-6, 6));
    if (chance(12)) { c.o2 = c.o1; c.m2 = c.m1; c.distinct = 0; }  // identical operands: also evaluated with ONE object on both sides
    if (chance(45)) { c.stateless = pick(1, 6); c.f = stateless_coeffs(c.stateless); c.fden = 2; }
    c.prelude = chance(40);
    return c;
  });
  vf::add_sub<QuadC>("quadrature", 4000, gen, check_quad);
  return vf::main_impl(argc, argv, "C17");
}
#endif
