// C19 -- library calls made DURING STATIC INITIALISATION (from a namespace-scope initialiser, as a program that keeps a
// pre-computed table of overlaps in a global would do) must give the same exact results as the same calls made from
// main(). The documented requirements do not include constant-initialisability of the scalar type, so the library
// must not depend on namespace-scope objects of type T whose dynamic initialisation may not have happened yet.
// Built with g++ (which initialises variable templates after ordinary globals of the same translation unit).
#include "common/cases.h"

using namespace vc;
namespace bo = bspline::operators;
namespace bi = bspline::integration;

static std::vector<std::string> compute_table() {
  std::vector<std::string> out;
  try {
    std::vector<Q> knots;
    for (int i = 0; i < 7; i++) knots.push_back(Q(i));
    auto basis = bspline::generateBSplines<2>(knots);
    const auto &N = basis.at(0);
    auto put = [&](const Q &q) { out.push_back(q.indeterminate() ? std::string("<indeterminate>") : vq::str(q)); };
    put(bi::LinearForm{}(N));
    for (size_t k = 0; k < 4; k++) put(bi::ScalarProduct{}(N, basis.at(k)));
    put(bi::BilinearForm{bo::Dx<1>{}, bo::Dx<1>{}}(N, N));
    put(bi::BilinearForm{bo::X<1>{}}(N, basis.at(1)));
    put(N(vq::frac(3, 2)));
    put(N(vq::frac(7, 2)));   // outside the support
    put(N(Q(-1)));
    out.push_back(N.isZero() ? "zero" : "nonzero");
    out.push_back((N * basis.at(3)).isZero() ? "zero" : "nonzero");
    auto s = N + basis.at(3) - basis.at(1) * Q(2);
    put(s(vq::frac(5, 2)));
    put(bi::LinearForm{bo::X<2>{}}(s));
    out.push_back((bo::Dx<1>{} * N == bo::Dx<1>{} * basis.at(0)) ? "eq" : "neq");
  } catch (const std::exception &e) {
    out.push_back(std::string("exception: ") + e.what());
  }
  return out;
}
// the table is computed while the globals of this translation unit are being initialised
static const std::vector<std::string> g_table_at_static_init = compute_table();

struct NoCase {
  i64 dummy = 0;
  template <class A>
  void io(A &a) { a("dummy", dummy); }
};
int main(int argc, char **argv) {
  vf::add_enum_sub("static-initialisation",
      [](vf::Sub &s, double) {
        for (int rep = 0; rep < 2; rep++) {
          vf::Obs o;
          o.nt(true);
          std::vector<std::string> now = compute_table();
          const std::vector<std::string> expect{"1", "11/20", "13/60", "1/120", "0", "1", "?", "3/4", "0", "0", "nonzero", "zero"};  // textbook values of the cardinal quadratic B-spline ("?": not tabulated)
          for (size_t i = 0; i < expect.size() && i < now.size(); i++)
            if (expect[i] != "?" && now[i] != expect[i]) o.fail("value " + std::to_string(i) + " computed in main() is " + now[i] + ", expected " + expect[i]);
          if (now != g_table_at_static_init) {
            std::string d;
            for (size_t i = 0; i < std::min(now.size(), g_table_at_static_init.size()); i++) if (now[i] != g_table_at_static_init[i]) { d = "entry " + std::to_string(i) + ": " + g_table_at_static_init[i] + " during static initialisation, " + now[i] + " in main()"; break; }
            o.fail("results computed during static initialisation differ from the same calls made in main(): " + d);
          }
          NoCase c; c.dummy = rep;
          vf::emit(s, vf::to_text(c), o);
        }
      },
      [](const std::string &, vf::Obs &) {});
  return vf::main_impl(argc, argv, "C19");
}
