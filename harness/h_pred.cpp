// C15 -- predicates tell the truth: isZero, checkOverlap, ==, !=.
#include <map>
#include <memory>

#include "common/cases.h"

using namespace vc;

struct PredC {
  GridC g;
  SplineC a, b;
  i64 oa = 0, ob = 0;
  i64 relation = 0;  // how b is derived for the equality check (same order as a):
                     // 0 independent, 1 copy, 2 one coefficient changed, 3 same coefficients / shifted window,
                     // 4 equal grid in a distinct object, 5 different grid (one point moved), 6 both interval-free
  i64 which = 0;     // which coefficient / point to change
  template <class A>
  void io(A &x) {
    x("g", g); x("a", a); x("b", b); x("oa", oa); x("ob", ob); x("relation", relation); x("which", which);
  }
};

template <class T, size_t oa, size_t ob>
static void check_pair(const PredC &c, vf::Obs &o) {
  auto grid = make_grid<T>(c.g);
  auto a = make_spline<T, oa>(grid, c.a);
  auto b = make_spline<T, ob>(grid, c.b);
  int pl = classify_pair(c.a.s, c.a.e, c.b.s, c.b.e);
  o.cls(std::string("placement:") + placement_name(pl));
  // ---- isZero
  for (int w = 0; w < 2; w++) {
    ref::Fn f = w ? model_of(c.g, c.b, ob) : model_of(c.g, c.a, oa);
    bool zero = ref::is_zero(f);
    bool got = w ? b.isZero() : a.isZero();
    VCHECK(o, got == zero, "isZero() = " << got << " but the denoted function is " << (zero ? "zero" : "non-zero:" + ref::str(f)));
    // cross-check of the model: evaluate at order+1 distinct points per interval through the library
    bool all_zero_eval = true;
    size_t ord = w ? ob : oa;
    const SplineC &sc = w ? c.b : c.a;
    auto pts = c.g.points();
    for (size_t j = (size_t)sc.s; j + 1 < (size_t)sc.e && sc.e - sc.s >= 2; j++)
      for (size_t k = 0; k <= ord; k++) {
        R x = pts[j] + (pts[j + 1] - pts[j]) * R((long)k + 1, (long)ord + 2);
        T xt;
        if constexpr (std::is_same_v<T, Q>) xt = vq::make(x); else xt = (T)x.get_d();
        T v = w ? b(xt) : a(xt);
        if (v != mk<T>(0)) all_zero_eval = false;
      }
    if constexpr (std::is_same_v<T, Q>) VCHECK(o, all_zero_eval == zero, "isZero model disagrees with evaluation at order+1 points per interval");
    o.cls(zero ? "zero-function" : "nonzero-function");
    if (zero && sc.e - sc.s >= 2) o.nt();
    if (!zero && sc.zmask) o.nt();
  }
  // ---- checkOverlap
  {
    i64 lo = std::max(c.a.s, c.b.s), hi = std::min(c.a.e, c.b.e);
    bool share = (c.a.e - c.a.s >= 2) && (c.b.e - c.b.s >= 2) && hi - lo >= 2;
    VCHECK(o, a.checkOverlap(b) == share, "a.checkOverlap(b) = " << a.checkOverlap(b) << ", windows share an interval: " << share);
    VCHECK(o, b.checkOverlap(a) == share, "b.checkOverlap(a) = " << b.checkOverlap(a) << ", windows share an interval: " << share);
    VCHECK(o, a.checkOverlap(a) == (c.a.e - c.a.s >= 2), "a.checkOverlap(a) wrong");
    // "equivalently: the product can be non-zero" -- coefficient-generic representatives (all ones)
    SplineC a1 = c.a, b1 = c.b;
    a1.num = {1}; a1.zmask = 0; a1.cden = 1; b1 = c.b; b1.num = {1}; b1.zmask = 0; b1.cden = 1;
    auto pa = make_spline<T, oa>(grid, a1);
    auto pb = make_spline<T, ob>(grid, b1);
    auto prod = pa * pb;
    VCHECK(o, !prod.isZero() == share, "product of generic splines is " << (prod.isZero() ? "zero" : "non-zero") << " but share-an-interval = " << share);
    if (pl == P_TOUCH || pl == P_GAP || pl == P_ONE_FREE || pl == P_NESTED) o.nt();
  }
}

template <class T, size_t oa>
static void check_eq(const PredC &c, vf::Obs &o) {
  auto grid = make_grid<T>(c.g);
  auto a = make_spline<T, oa>(grid, c.a);
  // derive b of the same order
  GridC g2 = c.g;
  SplineC sb = c.b;
  bool grids_equal = true;
  switch (c.relation) {
    case 1: case 4: sb = c.a; break;
    case 2: {
      sb = c.a;
      // materialise the coefficient list, then change one entry
      size_t cnt = std::max<size_t>(1, sb.nint() * (oa + 1));
      std::vector<i64> full(cnt);
      for (size_t i = 0; i < cnt; i++) full[i] = sb.num.empty() ? 0 : sb.num[i % sb.num.size()];
      full[(size_t)c.which % cnt] += 1;
      sb.num = full;
      break;
    }
    case 3: {
      sb = c.a;
      i64 w = sb.e - sb.s;
      if (w >= 1) {
        if (sb.e < (i64)c.g.n()) { sb.s++; sb.e++; } else if (sb.s > 0) { sb.s--; sb.e--; }
      }
      break;
    }
    case 5: {
      sb = c.a;
      size_t k = (size_t)c.which % c.g.gaps.size();
      g2.den *= 2; g2.off *= 2;
      for (auto &gp : g2.gaps) gp *= 2;
      // move point k+1 by half a unit of the old denominator (keeps monotonicity: gaps >= 2 now)
      g2.gaps[k] += 1;
      if (k + 1 < g2.gaps.size()) g2.gaps[k + 1] -= 1;
      grids_equal = false;
      break;
    }
    case 6: {  // both interval-free: empty or point-like windows
      sb = c.b;
      if (c.which & 8) { sb.s = sb.e = 0; } else { sb.e = sb.s + 1; }
      break;
    }
    default: break;
  }
  SplineC sa = c.a;
  if (c.relation == 6) {
    if (c.which & 1) { sa.s = sa.e = 0; } else { sa.e = sa.s + 1; }
    if ((c.which & 16) && sb.e - sb.s == 1 && sa.e - sa.s == 1) { sb.s = sa.s; sb.e = sa.e; }
  }
  auto a2 = make_spline<T, oa>(grid, sa);
  bool distinct_grid_object = c.relation == 4 || c.relation == 5 || (c.which & 2) != 0;
  auto gridb = distinct_grid_object ? make_equal_grid<T>(g2) : grid;
  auto b = make_spline<T, oa>(gridb, sb);
  const auto &A = (c.relation == 6) ? a2 : a;
  const SplineC &SA = (c.relation == 6) ? sa : c.a;
  o.cls("relation:" + std::to_string(c.relation));
  o.cls(distinct_grid_object ? "grid-object:distinct" : "grid-object:shared");
  // model of equality
  bool win_equal = (SA.s == sb.s && SA.e == sb.e) || (SA.s == SA.e && sb.s == sb.e);
  bool coef_equal = SA.nint() == sb.nint();
  if (coef_equal)
    for (size_t i = 0; i < SA.nint() && coef_equal; i++)
      for (size_t k = 0; k <= oa; k++)
        if (SA.coeff(oa, i, k) != sb.coeff(oa, i, k)) { coef_equal = false; break; }
  bool expect = grids_equal && win_equal && coef_equal;
  VCHECK(o, (A == b) == expect, "a == b is " << (A == b) << " expected " << expect << " (grids_equal=" << grids_equal << " windows_equal=" << win_equal << " coefficients_equal=" << coef_equal << ")");
  VCHECK(o, (b == A) == expect, "== not symmetric");
  VCHECK(o, (A != b) == !expect && (b != A) == !expect, "!= is not the negation of ==");
  VCHECK(o, A == A && !(A != A) && b == b, "== not reflexive");
  { auto cp = A; VCHECK(o, cp == A && A == cp && !(cp != A), "copy != original"); }
  { auto cp = b; cp = A; VCHECK(o, cp == A, "copy-assigned object != original"); }
  o.cls(expect ? "equal" : "unequal");
  o.nt(c.relation != 0);
}

// long-lived splines compared with splines on short-lived grids (see h_support.cpp, check_longlived)
static void check_longlived(const PredC &c, vf::Obs &o) {
  static std::map<size_t, std::unique_ptr<bspline::Spline<double, 1>>> pool;
  GridC gc; gc.den = 2; gc.off = -3;
  size_t n = 2 + (size_t)(c.which % 7);
  for (size_t i = 0; i + 1 < n; i++) gc.gaps.push_back(1 + (i64)(i % 3));
  SplineC sc; sc.s = 0; sc.e = (i64)n; sc.cden = 2; sc.num = {3, -5, 2, 7, 1};
  auto &slot = pool[n];
  if (!slot) slot = std::make_unique<bspline::Spline<double, 1>>(make_spline<double, 1>(make_grid<double>(gc), sc));
  const auto &L = *slot;
  o.nt(true);
  GridC g2 = gc;
  bool equal = true;
  switch (c.relation % 4) {
    case 0: break;                                                    // equal grid in a distinct object
    case 1: g2.gaps[(size_t)c.oa % g2.gaps.size()] += 1; equal = false; break;   // a point moved
    case 2: g2.off += 1; equal = false; break;                           // all points shifted
    default: g2.den = 4; g2.off *= 2; for (auto &gp : g2.gaps) gp *= 2; break;  // same values, other representation
  }
  {
    auto fresh = make_spline<double, 1>(make_grid<double>(g2), sc);
    VCHECK(o, (L == fresh) == equal && (fresh == L) == equal, "a long-lived spline and an identical spline on a fresh " << (equal ? "equal" : "DIFFERENT") << " grid compare " << ((L == fresh) ? "equal" : "unequal") << "/" << ((fresh == L) ? "equal" : "unequal") << " (the answer depends on earlier comparisons)");
    VCHECK(o, (L != fresh) == !equal && (fresh != L) == !equal, "!= is not the negation of == for a long-lived spline and a fresh one");
    o.cls(equal ? "fresh:equal-distinct" : "fresh:different");
  }
}

static void check_preds(const PredC &c, vf::Obs &o) {
  size_t oa = (size_t)std::min<i64>(std::max<i64>(c.oa, 0), 3), ob = (size_t)std::min<i64>(std::max<i64>(c.ob, 0), 3);
  bool dbl = (c.which & 4) != 0 && c.g.den > 0 && (c.g.den & (c.g.den - 1)) == 0 && (c.a.cden & (c.a.cden - 1)) == 0 && (c.b.cden & (c.b.cden - 1)) == 0;
  o.cls(dbl ? "type:double" : "type:Q");
  with_order<3>(oa, [&](auto OA) {
    with_order<3>(ob, [&](auto OB) {
      if (dbl) check_pair<double, decltype(OA)::value, decltype(OB)::value>(c, o);
      else check_pair<Q, decltype(OA)::value, decltype(OB)::value>(c, o);
    });
  });
}
static void check_equality(const PredC &c, vf::Obs &o) {
  size_t oa = (size_t)std::min<i64>(std::max<i64>(c.oa, 0), 4);
  bool dbl = (c.which & 4) != 0 && c.g.den > 0 && (c.g.den & (c.g.den - 1)) == 0 && (c.a.cden & (c.a.cden - 1)) == 0 && (c.b.cden & (c.b.cden - 1)) == 0;
  o.cls(dbl ? "type:double" : "type:Q");
  with_order<4>(oa, [&](auto OA) {
    if (dbl) check_eq<double, decltype(OA)::value>(c, o);
    else check_eq<Q, decltype(OA)::value>(c, o);
  });
}

int main(int argc, char **argv) {
  auto gen = rc::gen::exec([] {
    PredC c;
    GridOpt go; go.max_abs = 8;
    c.g = gen_grid(go);
    c.oa = pick(0, 4); c.ob = pick(0, 3);
    int pl = gen_placement();
    gen_pair(c.g.n(), pl, c.a.s, c.a.e, c.b.s, c.b.e);
    CoefOpt co; co.zero_spline_pct = 15; co.zero_interval_pct = 25;
    gen_coeffs(c.a, 4, co); gen_coeffs(c.b, 4, co);
    c.relation = pick(0, 6);
    c.which = pick(0, 63);
    return c;
  });
  vf::add_sub<PredC>("iszero-overlap", 3000, gen, check_preds);
  vf::add_sub<PredC>("equality", 3000, gen, check_equality);
  vf::add_sub<PredC>("long-lived-vs-fresh", 4000, rc::gen::exec([] { PredC c; c.which = pick(0, 63); c.relation = *rc::gen::weightedElement<i64>({{5, 0}, {2, 1}, {2, 2}, {1, 3}}); c.oa = pick(0, 9); return c; }), check_longlived);
  return vf::main_impl(argc, argv, "C15");
}
