// Runtime of the generated expression programs (C05, C06, C07, C19):
// a tiny AST + interpreter over the reference model, the case structure, and
// the templated checks that a generated translation unit instantiates for each
// of its expression types.
#ifndef VERIF_EXPR_COMMON_H
#define VERIF_EXPR_COMMON_H
#include <memory>

#include "common/cases.h"

namespace ex {
using namespace vc;
namespace bo = bspline::operators;
using bspline::integration::BilinearForm;
using bspline::integration::LinearForm;

// scalar literal helpers used by generated code
inline Q K(long n, long d = 1) { return vq::frac(n, d); }

// ------------------------------------------------------------------ AST
enum Kind { N_I, N_X, N_D, N_SOP, N_MUL, N_ADD, N_SUB, N_SCALE, N_DIV, N_ADDC, N_SUBC, N_CSUB, N_NEG };
struct Node {
  Kind k = N_I;
  size_t n = 0;  // power / derivative order / factor index
  R c = 0;       // scalar
  std::shared_ptr<Node> l, r;
};
using NP = std::shared_ptr<Node>;
inline NP mkn(Kind k, size_t n = 0, R c = 0, NP l = nullptr, NP r = nullptr) {
  auto p = std::make_shared<Node>();
  p->k = k; p->n = n; p->c = c; p->l = l; p->r = r;
  return p;
}
inline R rq(long n, long d = 1) { R r(n, d); r.canonicalize(); return r; }
inline NP I() { return mkn(N_I); }
inline NP X(size_t n) { return mkn(N_X, n); }
inline NP D(size_t n) { return mkn(N_D, n); }
inline NP SOP(size_t k) { return mkn(N_SOP, k); }
inline NP MUL(NP a, NP b) { return mkn(N_MUL, 0, 0, a, b); }
inline NP ADD(NP a, NP b) { return mkn(N_ADD, 0, 0, a, b); }
inline NP SUB(NP a, NP b) { return mkn(N_SUB, 0, 0, a, b); }
inline NP SCALE(R c, NP a) { return mkn(N_SCALE, 0, c, a); }   // c*A and A*c
inline NP DIV(NP a, R c) { return mkn(N_DIV, 0, c, a); }       // A/c
inline NP ADDC(NP a, R c) { return mkn(N_ADDC, 0, c, a); }     // A+c and c+A
inline NP SUBC(NP a, R c) { return mkn(N_SUBC, 0, c, a); }     // A-c
inline NP CSUB(R c, NP a) { return mkn(N_CSUB, 0, c, a); }     // c-A
inline NP NEG(NP a) { return mkn(N_NEG, 0, 0, a); }

// (expr s) as a function, from the equations of the property statement
inline ref::Fn interp(const NP &e, const ref::Fn &s, const std::vector<ref::Fn> &factors) {
  switch (e->k) {
    case N_I: return s;
    case N_X: return ref::mulx(s, e->n);
    case N_D: return ref::deriv(s, e->n);
    case N_SOP: return ref::mul(factors.at(e->n), s);
    case N_MUL: return interp(e->l, interp(e->r, s, factors), factors);
    case N_ADD: return ref::add(interp(e->l, s, factors), interp(e->r, s, factors));
    case N_SUB: return ref::sub(interp(e->l, s, factors), interp(e->r, s, factors));
    case N_SCALE: return ref::scale(interp(e->l, s, factors), e->c);
    case N_DIV: return ref::scale(interp(e->l, s, factors), 1 / e->c);
    case N_ADDC: return ref::add(interp(e->l, s, factors), ref::scale(s, e->c));
    case N_SUBC: return ref::sub(interp(e->l, s, factors), ref::scale(s, e->c));
    case N_CSUB: return ref::sub(ref::scale(s, e->c), interp(e->l, s, factors));
    default: return ref::scale(interp(e->l, s, factors), R(-1));
  }
}
inline size_t internal_nodes(const NP &e) {
  if (!e) return 0;
  size_t n = (e->l || e->r) ? 1 : 0;
  return n + internal_nodes(e->l) + internal_nodes(e->r);
}
inline bool uses_factor(const NP &e, size_t k) {
  if (!e) return false;
  if (e->k == N_SOP && e->n == k) return true;
  return uses_factor(e->l, k) || uses_factor(e->r, k);
}
inline void productions(const NP &e, vf::Obs &o) {
  static const char *names[] = {"I", "X", "Dx", "SplineOperator", "E*E", "E+E", "E-E", "c*E", "E/c", "E+c", "E-c", "c-E", "-E"};
  if (!e) return;
  o.cls(std::string("prod:") + names[e->k]);
  productions(e->l, o);
  productions(e->r, o);
}

// ------------------------------------------------------------------ case
struct ExprC {
  GridC g;
  SplineC a, a2, b;     // operand, second operand of the same order (linearity), right operand of the bilinear form
  SplineC f0, f1, f2;   // factor splines of orders 0, 1, 2
  i64 expr = 0, oa = 0, ob = 0, alpha_n = 1, alpha_d = 1, beta_n = 1, beta_d = 1;
  template <class A>
  void io(A &x) {
    x("g", g); x("a", a); x("a2", a2); x("b", b); x("f0", f0); x("f1", f1); x("f2", f2); x("expr", expr); x("oa", oa); x("ob", ob);
    x("alpha_n", alpha_n); x("alpha_d", alpha_d); x("beta_n", beta_n); x("beta_d", beta_d);
  }
};
inline const char *factor_placement(const SplineC &f, const SplineC &a) {
  bool ff = f.e - f.s < 2, af = a.e - a.s < 2;
  if (af) return "operand-interval-free";
  if (ff) return "factor-interval-free";
  if (f.s <= a.s && f.e >= a.e) return "factor-covers-operand";
  i64 lo = std::max(f.s, a.s), hi = std::min(f.e, a.e);
  if (hi - lo >= 2) {
    if (f.s > a.s && f.e < a.e) return "factor-strictly-inside";
    if (f.e < a.e) return "factor-ends-inside-operand";
    return "factor-starts-inside-operand";
  }
  if (hi - lo == 1) return "touching";
  return "gap";
}

struct Factors {
  bspline::Spline<Q, 0> f0;
  bspline::Spline<Q, 1> f1;
  bspline::Spline<Q, 2> f2;
  std::vector<ref::Fn> model;
};
inline Factors build_factors(const bspline::support::Grid<Q> &grid, const ExprC &c) {
  Factors f{make_spline<Q, 0>(grid, c.f0), make_spline<Q, 1>(grid, c.f1), make_spline<Q, 2>(grid, c.f2), {}};
  f.model = {model_of(c.g, c.f0, 0), model_of(c.g, c.f1, 1), model_of(c.g, c.f2, 2)};
  return f;
}
inline void classify(const ExprC &c, const NP &ast, vf::Obs &o, const SplineC &operand) {
  productions(ast, o);
  const SplineC *fs[3] = {&c.f0, &c.f1, &c.f2};
  for (size_t k = 0; k < 3; k++)
    if (uses_factor(ast, k)) o.cls(std::string("factor:") + factor_placement(*fs[k], operand));
}

// ------------------------------------------------------------------ checks
// E provides: template make(f0,f1,f2) -> operator expression built from rvalues; static NP ast(); static const char* text()
template <class E, size_t order>
void check_apply(const ExprC &c, vf::Obs &o) {
  auto grid = make_grid<Q>(c.g);
  const auto s = make_spline<Q, order>(grid, c.a);
  const auto s0 = s;
  Factors F = build_factors(grid, c);
  NP ast = E::ast();
  classify(c, ast, o, c.a);
  o.cls("operand-order:" + std::to_string(order));
  o.nt(internal_nodes(ast) >= 2 && c.a.e - c.a.s >= 2);
  const auto op = E::make(F.f0, F.f1, F.f2);
  const auto r = op * s;
  std::string inv = spline_invariant(r);
  VCHECK(o, inv.empty(), E::text() << " applied: invalid result: " << inv);
  ref::Fn expect = interp(ast, model_of(c.g, c.a, order), F.model);
  ref::Fn got = denote(r);
  long d = ref::first_diff(got, expect);
  VCHECK(o, d == -1, "(" << E::text() << ") * s differs from the denoted differential expression on grid interval " << d << ": got" << ref::str(got) << " expected" << ref::str(expect));
  VCHECK(o, s == s0, "operand modified");
  // applying twice through transformSpline gives the same spline (operators are values)
  const auto r2 = bo::transformSpline(op, s);
  VCHECK(o, r2 == r, "transformSpline and operator* disagree for " << E::text());
}

template <class E, size_t order>
void check_linform(const ExprC &c, vf::Obs &o) {
  auto grid = make_grid<Q>(c.g);
  const auto s = make_spline<Q, order>(grid, c.a);
  Factors F = build_factors(grid, c);
  NP ast = E::ast();
  classify(c, ast, o, c.a);
  o.cls("operand-order:" + std::to_string(order));
  const auto op = E::make(F.f0, F.f1, F.f2);
  constexpr size_t outsize = decltype(op * s)::spline_order + 1;
  o.cls(outsize % 2 ? "kernel-size:odd" : "kernel-size:even");
  o.nt(c.a.e - c.a.s >= 2 && outsize >= 2);
  R expect = ref::integral(interp(ast, model_of(c.g, c.a, order), F.model));
  Q v1 = LinearForm{E::make(F.f0, F.f1, F.f2)}(s);
  Q v2 = LinearForm{E::make(F.f0, F.f1, F.f2)}.evaluate(s);
  VCHECK(o, vq::raw(v1) == expect, "LinearForm{" << E::text() << "}(s) = " << vq::str(v1) << " but the exact integral of (O s) over the support is " << rstr(expect));
  VCHECK(o, v1 == v2, "LinearForm operator() and evaluate() disagree");
  if (c.a.e - c.a.s < 2) VCHECK(o, vq::raw(v1) == 0, "linear form of an interval-free spline is not zero");
  // agreement with integrating the transformed spline with the identity form
  Q v3 = LinearForm{}(op * s);
  VCHECK(o, v3 == v1, "LinearForm{O}(s) != LinearForm{}(O s)");
}

inline int &bilinear_mode() {  // 0: C06 oracles (exact integral, swap, linearity, scalar product); 1: C07 identity with the linear form of the product
  static int m = 0;
  return m;
}
template <class E1, class E2, size_t oa, size_t ob>
void check_bilinear(const ExprC &c, vf::Obs &o) {
  auto grid = make_grid<Q>(c.g);
  const auto a = make_spline<Q, oa>(grid, c.a);
  const auto a2 = make_spline<Q, oa>(grid, c.a2);
  const auto b = make_spline<Q, ob>(grid, c.b);
  Factors F = build_factors(grid, c);
  NP ast1 = E1::ast(), ast2 = E2::ast();
  classify(c, ast1, o, c.a);
  classify(c, ast2, o, c.b);
  int pl = classify_pair(c.a.s, c.a.e, c.b.s, c.b.e);
  o.cls(std::string("placement:") + placement_name(pl));
  o.cls("orders:" + std::to_string(oa) + "," + std::to_string(ob));
  i64 lo = std::max(c.a.s, c.b.s), hi = std::min(c.a.e, c.b.e);
  bool share = c.a.e - c.a.s >= 2 && c.b.e - c.b.s >= 2 && hi - lo >= 2;
  const auto o1 = E1::make(F.f0, F.f1, F.f2);
  const auto o2 = E2::make(F.f0, F.f1, F.f2);
  constexpr size_t sa = decltype(o1 * a)::spline_order + 1, sb = decltype(o2 * b)::spline_order + 1;
  o.cls(std::string("kernel-parity:") + (sa % 2 ? "odd" : "even") + "," + (sb % 2 ? "odd" : "even"));
  o.nt(share && (pl != P_IDENT || oa != ob || internal_nodes(ast1) + internal_nodes(ast2) >= 1));
  ref::Fn A = interp(ast1, model_of(c.g, c.a, oa), F.model);
  ref::Fn B = interp(ast2, model_of(c.g, c.b, ob), F.model);
  R expect = ref::integral(ref::mul(A, B));  // (O1 a) and (O2 b) vanish outside their operands: only common intervals contribute
  BilinearForm form{E1::make(F.f0, F.f1, F.f2), E2::make(F.f0, F.f1, F.f2)};
  Q v = form(a, b);
  if (bilinear_mode() == 1) {
    // C07: the bilinear form equals the identity linear form of the product spline (library vs library, exact)
    Q lf = LinearForm{}((o1 * a) * (o2 * b));
    VCHECK(o, lf == v, "bilinear form <" << E1::text() << " a | " << E2::text() << " b> = " << vq::str(v) << " differs from the identity linear form of the product (O1 a)*(O2 b) = " << vq::str(lf));
    VCHECK(o, vq::raw(lf) == expect, "identity linear form of the product spline differs from the exact integral " << rstr(expect));
    return;
  }
  VCHECK(o, vq::raw(v) == expect, "<" << E1::text() << " a | " << E2::text() << " b> = " << vq::str(v) << " but the exact integral over the common intervals is " << rstr(expect));
  VCHECK(o, form.evaluate(a, b) == v, "operator() and evaluate() disagree");
  if (ast1->k == N_I && ast2->k == N_I) {
    VCHECK(o, bspline::integration::ScalarProduct{}(a, b) == v, "ScalarProduct differs from the bilinear form with two identity operators");
    VCHECK(o, BilinearForm{}(a, b) == v, "default BilinearForm differs from the bilinear form with two identity operators");
  }
  if (!share) VCHECK(o, vq::raw(v) == 0, "bilinear form of splines without common interval is not zero");
  // swapping the two (operator, spline) pairs
  Q vs = BilinearForm{E2::make(F.f0, F.f1, F.f2), E1::make(F.f0, F.f1, F.f2)}(b, a);
  VCHECK(o, vs == v, "bilinear form changes when the two (operator, spline) pairs are swapped: " << vq::str(vs) << " vs " << vq::str(v));
  // linearity in the first argument
  Q al = vq::frac(c.alpha_n, c.alpha_d < 1 ? 1 : c.alpha_d), be = vq::frac(c.beta_n, c.beta_d < 1 ? 1 : c.beta_d);
  Q lhs = form(al * a + be * a2, b), rhs = al * v + be * form(a2, b);
  VCHECK(o, lhs == rhs, "not linear in the first argument");
  Q lhs2 = form(a, be * b), rhs2 = be * v;
  VCHECK(o, lhs2 == rhs2, "not homogeneous in the second argument");
}

// ------------------------------------------------------------------ registry
using CheckFn = void (*)(const ExprC &, vf::Obs &);
struct Entry {
  const char *text;
  CheckFn apply[4];
  CheckFn linform[4];
  CheckFn bilinear[4];  // four (oa,ob) combinations chosen by the generator
  int combo[4][2];
};
inline std::vector<Entry> &registry() {
  static std::vector<Entry> r;
  return r;
}

inline void gen_factor(SplineC &f, size_t n, const SplineC &operand, size_t order) {
  // placement relative to the operand chosen first, then realised
  i64 N = (i64)n, s = operand.s, e = operand.e;
  int want = (int)pick(0, 7);
  bool ok = false;
  if (e - s >= 2) {
    switch (want) {
      case 0: f.s = pick(0, s); f.e = pick(e, N); ok = true; break;                                  // covers
      case 1: if (e - s >= 4) { f.s = pick(s + 1, e - 3); f.e = pick(f.s + 2, e - 1); ok = true; } break;  // strictly inside
      case 2: case 3: if (e - s >= 3) { f.e = pick(s + 2, e - 1); f.s = pick(0, f.e - 2); ok = true; } break;  // ends inside the operand
      case 4: if (e - s >= 3) { f.s = pick(s + 1, e - 2); f.e = pick(e, N); ok = true; } break;      // starts inside
      case 5: if (s >= 1) { f.e = s + 1; f.s = pick(0, s - 1); ok = true; } else if (e < N) { f.s = e - 1; f.e = pick(e + 1, N); ok = true; } break;  // touching
      case 6: if (s >= 2) { f.e = pick(2, s); f.s = pick(0, f.e - 2); ok = true; } else if (N - e >= 2) { f.s = pick(e, N - 2); f.e = pick(f.s + 2, N); ok = true; } break;  // gap
      default: gen_window(n, f.s, f.e, chance(50) ? W_EMPTY : W_POINT); ok = true; break;
    }
  }
  if (!ok) gen_window(n, f.s, f.e);
  gen_coeffs(f, order);
}
inline rc::Gen<ExprC> gen_case(bool bilinear) {
  return rc::gen::exec([bilinear] {
    ExprC c;
    GridOpt go; go.min_n = 2; go.max_n = 9;
    c.g = gen_grid(go);
    c.expr = pick(0, (i64)registry().size() - 1);
    c.oa = pick(0, 3); c.ob = pick(0, 3);
    size_t n = c.g.n();
    if (bilinear) gen_pair(n, gen_placement(), c.a.s, c.a.e, c.b.s, c.b.e);
    else { gen_window(n, c.a.s, c.a.e); gen_window(n, c.b.s, c.b.e); }
    gen_coeffs(c.a, 3); gen_coeffs(c.b, 3);
    c.a2 = c.a; gen_window(n, c.a2.s, c.a2.e); gen_coeffs(c.a2, 3);
    gen_factor(c.f0, n, c.a, 0); gen_factor(c.f1, n, chance(50) ? c.a : c.b, 1); gen_factor(c.f2, n, c.a, 2);
    c.alpha_n = pick(-5, 5); c.alpha_d = one_of<i64>({1, 2, 3}); c.beta_n = pick(-5, 5); c.beta_d = one_of<i64>({1, 2, 3});
    return c;
  });
}
inline int expr_main(int argc, char **argv) {
  auto idx = [](const ExprC &c) { return (size_t)(((c.expr % (i64)registry().size()) + (i64)registry().size()) % (i64)registry().size()); };
  auto ord = [](i64 v) { return (size_t)std::min<i64>(std::max<i64>(v, 0), 3); };
  int per = 150;  // cases per expression per sub-check at scale 1
  int n = (int)registry().size();
  vf::add_sub<ExprC>("apply", per * n, gen_case(false), [=](const ExprC &c, vf::Obs &o) {
    const Entry &e = registry()[idx(c)];
    o.cls(std::string("expr:") + e.text);
    e.apply[ord(c.oa)](c, o);
  });
  vf::add_sub<ExprC>("linform", per * n / 2, gen_case(false), [=](const ExprC &c, vf::Obs &o) {
    const Entry &e = registry()[idx(c)];
    o.cls(std::string("expr:") + e.text);
    e.linform[ord(c.oa)](c, o);
  });
  vf::add_sub<ExprC>("bilinear", per * n, gen_case(true), [=](const ExprC &c, vf::Obs &o) {
    const Entry &e = registry()[idx(c)];
    o.cls(std::string("expr:") + e.text);
    size_t k = (size_t)((c.oa * 4 + c.ob) % 4);
    ExprC cc = c;
    cc.oa = e.combo[k][0]; cc.ob = e.combo[k][1];
    e.bilinear[k](cc, o);
  });
  vf::add_sub<ExprC>("linform-product", per * n / 2, gen_case(true), [=](const ExprC &c, vf::Obs &o) {
    const Entry &e = registry()[idx(c)];
    o.cls(std::string("expr:") + e.text);
    size_t k = (size_t)((c.oa * 4 + c.ob) % 4);
    ExprC cc = c;
    cc.oa = e.combo[k][0]; cc.ob = e.combo[k][1];
    bilinear_mode() = 1;
    e.bilinear[k](cc, o);
    bilinear_mode() = 0;
  });
  return vf::main_impl(argc, argv, "C05");
}
}  // namespace ex
#endif
