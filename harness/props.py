"""Property table for ./check: which harness units decide which property."""

def T(name, kind='asan', src=None, **kw):
    d = dict(name=name, src=src or ['harness/%s.cpp' % name], kind=kind)
    d.update(kw)
    return d

EXACT = 'exact rational arithmetic (GMP) in oracle and, via the archetype scalar Q, in the library itself: equalities are exact, no tolerance'
SAN = 'clang ASan+UBSan (-fno-sanitize-recover) and -D_GLIBCXX_ASSERTIONS are trusted to report memory errors / UB they instrument'

PROPS = {}

PROPS['C13'] = dict(
    units=[dict(target=T('h_support'),
                quick=dict(args=['--maxn', '6'], scale=1.0),
                thorough=dict(args=['--maxn', '9'], scale=8.0, shards=4))],
    rule=('enumerated: every grid size n (2..6 quick, 2..9 thorough) x every window incl. empty and point-like x '
          '{single-window accessors over indices 0..n+2 and around SIZE_MAX, SIZE_MAX/2, 2^32, 2^63; all pairs x 5 grid relations '
          '(shared, equal copy, point moved, shorter, longer); all triples}; random: grids of 2..200 points, constructed placement classes. '
          'Oracle = windows as index sets. Non-trivial: single windows always; pairs unless identical windows on a shared grid; triples unless all three windows equal. '
          'Distinct = distinct case text (n, windows, grid relation).'),
    exhaustive_part='all windows, pairs and triples of windows on grids of 2..maxn points (index behaviour does not depend on the point values)',
    technique='exhaustive small-scope enumeration + rapidcheck random generation against a set model of index windows',
    level_text=('Generated-input search against an explicit set model: every window, pair and triple on grids up to a size bound is enumerated '
                '(complete for that scope), larger grids are sampled; every index class incl. the extremes of size_t is tried. No absence proof beyond the enumerated scope.'),
    level_note='Trusted: the harness set model (hull / intersection of index ranges) and the sanitizers; grid sizes above the enumeration bound are only sampled.',
    assumptions=[SAN, 'index arithmetic is independent of the grid point values, so enumeration uses one set of points per grid size'],
)
