"""Property table for ./check: which harness units decide which property."""

def T(name, kind='asan', src=None, **kw):
    d = dict(name=name, src=src or ['harness/%s.cpp' % name], kind=kind)
    d.update(kw)
    return d

EXACT = 'exact rational arithmetic (GMP) in oracle and, via the archetype scalar Q, in the library itself: equalities are exact, no tolerance'
SAN = 'clang ASan+UBSan (-fno-sanitize-recover) and -D_GLIBCXX_ASSERTIONS are trusted to report memory errors / UB they instrument'

PROPS = {}

def et_unit(pid, prefix, qscale=1.0, tscale=6.0):
    """expression-template scalar sweep (GMP mpq_class used directly as the scalar type), sub-check selected by prefix"""
    a = ['--property', pid] + (['--prefix', prefix] if prefix else [])
    return dict(target=T('h_etscalar'), quick=dict(args=a, scale=qscale), thorough=dict(args=a, scale=tscale, shards=4))

ET_RULE = (' Expression-template scalar unit (h_etscalar.cpp): the same operation family with GMP mpq_class used DIRECTLY as the scalar type - an exact type that meets every documented requirement and whose operators return unevaluated expression objects holding references (like the boost::multiprecision types the README advertises) - '
           'against the reference model; a library statement that keeps such an expression in an `auto` variable or returns it from a deduced-return lambda is bit-identical for built-in floats and for the plain archetype and shows up here as a stale value or an ASan use-after-scope report.')

PROPS['C13'] = dict(
    units=[dict(target=T('h_support'),
                quick=dict(args=['--maxn', '6'], scale=1.0),
                thorough=dict(args=['--maxn', '9'], scale=8.0, shards=4))],
    rule=('enumerated: every grid size n (2..6 quick, 2..9 thorough) x every window incl. empty and point-like x '
          '{single-window accessors over indices 0..n+2 and around SIZE_MAX, SIZE_MAX/2, 2^32, 2^63; all pairs x 5 grid relations '
          '(shared, equal copy, point moved, shorter, longer); all triples; moved-from supports (move construction and move assignment out of every window) against every kind of empty support}; random: grids of 2..200 points, constructed placement classes. '
          'Oracle = windows as index sets. Non-trivial: single windows always; pairs unless identical windows on a shared grid; triples unless all three windows equal. '
          'Distinct = distinct case text (n, windows, grid relation).'),
    exhaustive_part='all windows, pairs and triples of windows on grids of 2..maxn points (index behaviour does not depend on the point values)',
    technique='exhaustive small-scope enumeration + rapidcheck random generation against a set model of index windows',
    level_text=('Generated-input search against an explicit set model: every window, pair and triple on grids up to a size bound is enumerated '
                '(complete for that scope), larger grids are sampled; every index class incl. the extremes of size_t is tried. No absence proof beyond the enumerated scope.'),
    level_note='Trusted: the harness set model (hull / intersection of index ranges) and the sanitizers; grid sizes above the enumeration bound are only sampled.',
    assumptions=[SAN, 'index arithmetic is independent of the grid point values, so enumeration uses one set of points per grid size'],
)

PROPS['C02'] = dict(
    units=[et_unit('C02', 'et-eval'), dict(target=T('h_eval', parts=4), quick=dict(scale=1.0), thorough=dict(scale=6.0, shards=16)),
           dict(target=T('h_eval_tsan', kind='tsan', src=['harness/h_eval.cpp'], parts=4), quick=dict(args=['--prefix', 'eval-concurrent', '--no-shrink'], scale=1.0, shards=2, timeout=900), thorough=dict(args=['--prefix', 'eval-concurrent', '--no-shrink'], scale=6.0, shards=8, timeout=3600)),
           dict(target=T('h_hist', parts=4), quick=dict(args=['--focus', 'C02'], scale=0.5, shards=4), thorough=dict(args=['--focus', 'C02', '--max-size', '200'], scale=3.0, shards=16))],
    rule=('random splines (grid 2..10 points incl. far-from-origin and strongly non-uniform, every window kind, order 0..6 and 10, Q / float / double / long double) x '
          'abscissae: every grid point, one generated interior point per grid interval, both support ends and points 1/1000 inside/outside them, points outside the grid, '
          'far outside, and (floats) one ulp either side of every grid point. Oracle: linear scan + exact power-sum value in the absolute basis; at a shared grid point either '
          'adjacent piece; outside the closed support exactly 0; front/back = support ends, throw when empty. Every case counts as non-trivial (it evaluates at all grid points and both ends); distinct = distinct case text. '
          'Second unit: the history interpreter of C09/C10/C14 with the C02 oracle - after EVERY step of a generated call history (moves, cross-order assignments, in-place arithmetic, earlier evaluations, failing calls) every live spline is probed through fresh copies '
          'inside its first intervals, at their grid points, at the right end and outside, and each value must equal the value of the polynomial the object stores (exact, Q). '
          'Third unit (eval-concurrent, also built with ThreadSanitizer): 2..8 threads evaluate UNRELATED splines (own grid, own object, same scalar type and order) 20..200 times each at the same abscissae; every value must be stable, equal the sequential evaluation and (Q) the exact value of the stored polynomial - the value at x must not depend on what other threads evaluate.'),
    technique='rapidcheck generation against an exact rational reference evaluation (linear scan, absolute basis)',
    level_text='Generated-input search with an exact oracle over Q and a stated rounding allowance (64 eps * sum|c_k||x-xm|^k) in the built-in floating types; thousands of splines x all abscissa classes per run. Sampling, not proof.',
    level_note='Trusted: GMP, the reference model (ref.h), exact float->rational conversion. A point-like spline may either return its point from front()/back() or throw (DESIGN 6.1).',
    assumptions=[EXACT, SAN, 'NaN abscissae are outside the statement ("all real x") and not generated'],
)
PROPS['C15'] = dict(
    units=[dict(target=T('h_pred'), quick=dict(scale=1.0), thorough=dict(scale=6.0, shards=16)),
           dict(target=T('h_hist', parts=4), quick=dict(args=['--focus', 'C15'], scale=1.0, shards=2), thorough=dict(args=['--focus', 'C15', '--max-size', '200'], scale=4.0, shards=16))],
    rule=('random spline pairs by constructed placement class (identical, nested, partial, touching, gap, one/both interval-free), orders 0..4, zero coefficients in none/some/all intervals, Q and double; '
          'for equality b is derived from a by: independent / copy / one coefficient changed / shifted window / equal grid in a distinct object / one grid point moved / both interval-free. '
          'Oracles: isZero iff reference function zero (cross-checked by evaluating at order+1 points per interval); checkOverlap iff index sets share two consecutive points iff product of coefficient-generic splines non-zero; '
          '== iff grids equal and windows equal-or-both-empty and coefficients identical; reflexive, symmetric, copy, != negation. Non-trivial: zero function with intervals or zero-masked intervals, non-identical placement, or derived relation. '
          'Second unit: the history interpreter with the C15 oracle - after EVERY step of a generated call history (predicate queries followed by scaling by zero, negation, assignments, moves, in-place arithmetic) every live spline and a fresh copy of it must answer isZero() according to its stored coefficients, compare equal to itself and to its copy, and overlap itself iff it has intervals.'),
    technique='rapidcheck generation against set/function models of the predicates',
    level_text='Generated-input search against independent models of the three predicates, both directions (iff) checked; sampling, not proof.',
    level_note='Trusted: reference model and placement classifier; NaN coefficients are outside the statement and not generated (DESIGN 6.11).',
    assumptions=[EXACT, SAN],
)
PROPS['C03'] = dict(
    units=[et_unit('C03', 'et-arith'), dict(target=T('h_arith', parts=4), quick=dict(scale=1.0), thorough=dict(scale=5.0, shards=16))],
    rule=('(a) operand pairs, orders (0..3)^2, constructed placement classes, rational coefficients/scalars: a+b, b+a, a-b, b-a, a*b, b*a, a*c, c*a, a/c, -a, a*0, += -= *= /=, self += / -=, cross-order assignment; '
          '(b) linearCombination over 1..6 splines (both overloads, vs operator chain); (c) in-place histories of 1..10 steps on an order-3 accumulator with the model updated alongside; '
          '(d) high orders (10,10), (10,2), (7,4) - the shipped examples use order 10: + - * += -=, Dx<3>, X<2>, commutator, linear / bilinear forms and evaluation, all exact. '
          'Oracle: reference function equality on EVERY grid interval (so results are zero wherever unsupported) + class invariants of every result + operands unchanged. '
          'Non-trivial: non-identical placement or mixed orders; >= 2 splines; >= 3 steps. Distinct = distinct case text.'),
    technique='rapidcheck generation, library instantiated with an exact rational scalar, compared interval-by-interval with a reference piecewise-polynomial model',
    level_text='Exact generated-input search: every identity is checked without tolerance on every grid interval. Sampling of an infinite input family, not proof.',
    level_note='Trusted: GMP and ref.h (absolute-basis polynomial algebra). a/c is required to denote (1/c)*a, exact in Q (DESIGN 6.12).',
    assumptions=[EXACT, SAN],
)
PROPS['C04'] = dict(
    units=[et_unit('C04', 'et-operators'), dict(target=T('h_prim', parts=6), quick=dict(scale=1.0), thorough=dict(scale=6.0, shards=16))],
    rule=('full template matrix Dx<n> n=0..5 x order 0..5, X<n> n=0..5 x order 0..4, identity x order 0..5 (per-combination counters in per_subcheck.classes), random grids incl. far from origin, '
          'all window kinds, Q (all), double / long double (n <= 3, dyadic inputs for which the operation is exact) and the integer-like scalar `long` (n <= 3, integer grid points of equal parity and integer coefficients, so every quantity the library forms is an integer) and GMP mpq_class used directly as the scalar (an exact type whose operators return expression templates). Oracle: n-fold derivative / multiplication by x^n of the absolute-basis model, result order, same window, '
          'zero outside the operand, identity == operand. Non-trivial: non-zero function and (n >= order-1, or |x| > 4, or strict sub-window, or n >= 2 for X).'),
    technique='rapidcheck generation over the (n, order) template matrix against exact polynomial calculus in the absolute basis',
    level_text='Exact generated-input search over every compiled (n, order) instantiation; sampling of coefficients/grids, not proof; template parameters limited to the compiled matrix.',
    level_note='Trusted: GMP, ref.h. n and order above 5 are not instantiated.',
    assumptions=[EXACT, SAN, 'double/long double sub-cases use dyadic inputs small enough that the operator result is exactly representable'],
)

PROPS['C01'] = dict(
    units=[et_unit('C01', 'et-generator'), dict(target=T('h_gen', parts=4), quick=dict(scale=1.0), thorough=dict(scale=4.0, shards=16))],
    rule=('random knot vectors by shape (random with 35% repeated knots, simple, clamped, multiplicity > p+1 at an end, multiplicity p+2.. inside, several interior repeats 2..p+2, shortest m=p+1/p+2, far from origin with minimal gaps) '
          'x order p=0..6 x {Q, float, double, long double} x three routes (knots only, knots + separately built equal grid, free function). Oracle: Cox-de Boor recursion on the reference model; '
          'Q: exact equality on every grid interval, zero outside [t_i,t_{i+p+1}], partition of unity inside [t_p,t_{m-p-1}], C^{p-mu} at every knot and a jump in derivative p-mu+1 for some function at interior knots; '
          'floats: count, routes equal, window covers the exact support, coefficient error <= 2^20 eps * sum|c_k|h^k. Non-trivial: >= 1 function and (repeated knot or non-uniform spacing or m <= p+3 or |t_0| > 4).'),
    technique='rapidcheck generation of knot vectors against an independent exact Cox-de Boor recursion on piecewise polynomials',
    level_text='Exact generated-input search (Q) plus bounded-error comparison in the three floating types; all multiplicity patterns are constructed by the generator and counted. Sampling, not proof; orders above 6 not instantiated.',
    level_note='Trusted: GMP, ref.h, the recursion as transcribed from the definition (itself cross-checked by partition of unity and knot continuity).',
    assumptions=[EXACT, SAN, 'float runs use dyadic knots with |t| <= 8 and gaps >= 1/8 (the well-scaled domain of C16)'],
)

PROPS['C11'] = dict(
    units=[dict(target=T('h_valid', parts=2), quick=dict(scale=6.0), thorough=dict(scale=8.0, shards=16))],
    rule=('valid and invalid arguments in comparable shares for every validating entry point: Grid (vector / iterator pair over vector and list / initializer_list / shared_ptr / null shared_ptr) over sequences of 0..9 values built from an '
          'increasing base by {nothing, swap two, duplicate one, NaN anywhere, +-inf at the proper end or anywhere, +0/-0 pair, denormal gaps, DBL_MAX / nextafter(1)}; Support(grid,s,e) over s,e in [0,n+2] and SIZE_MAX-k; '
          'Spline(support, coefficients) with every count 0..n+1 on empty/point/interval windows; BSplineGenerator(knots), BSplineGenerator(knots, grid) with matching and four kinds of non-matching grid, generateBSplines<p> (p=0..4, 0..p+4 knots, repeated knots, inversions, NaN); '
          'linearCombination over (#coefficients,#splines) in 0..4 squared, three overloads, members ordinary / all empty / all point-like / first or last empty / mixed; interpolate (exact solver and bundled Eigen solver) over window sizes 0..5 x ordinate counts 0..5 x boundary derivative orders 0..order+2. '
          'Oracle: accepted IFF valid by a predicate transcribed from the statement; every refusal must be BSplineException. Non-trivial: invalid with exactly one defect / one-off count, or valid at a boundary (n=2, (0,0), end==size, m=p+1, special values).'),
    technique='rapidcheck generation of valid/invalid arguments against independent validity predicates (accept-iff-valid, exception type)',
    level_text='Generated-input search in both directions (invalid refused, valid accepted) with defects placed at generated positions and special floating-point values; sampling, not proof.',
    level_note='Trusted: the validity predicates in h_valid.cpp (DESIGN 6.4). A valid interpolation call whose system is singular counts as accepted (solvability is C12).',
    assumptions=[SAN, 'Armadillo is not installed: interpolateUsingArmadillo is not exercised'],
)

PROPS['C08'] = dict(
    units=[dict(target=T('h_grids', parts=2), quick=dict(scale=4.0), thorough=dict(scale=5.0, shards=16)),
           dict(target=T('h_hist', parts=4), quick=dict(args=['--focus', 'C08'], scale=1.0, shards=4), thorough=dict(args=['--focus', 'C08', '--max-size', '200'], scale=4.0, shards=16)),
           '@FUZZ08@'],
    rule=('base grid g and a mutation g\' from {one point moved, extra point in front / at the back / inside, first / last point dropped, point moved OUTSIDE the hull of both windows (grids agree where the supports meet), equal grid in a distinct object} '
          'x constructed placement class incl. interval-free arguments x orders (0..2)^2 x 16 entry points: a+b, a-b, a*b, a+=b, a-=b, linearCombination (foreign spline at a generated position of 2..5, both overloads), BilinearForm identity / with operators / operator(), '
          'integrate<3> (double), SplineOperator{v}*s, three compound expressions containing SplineOperator{v}, LinearForm{SplineOperator}, BilinearForm{SplineOperator} with operands on one grid and on different grids, BSplineGenerator(knots, g\'). '
          'Oracle: BSplineException with DIFFERING_GRIDS (generator: any code), nothing returned, snapshots of all arguments and of the in-place target unchanged; for equal grids in distinct objects every result equals the shared-instance result. '
          'Non-trivial: mutation outside the hull, equal-distinct object, interval-free argument, or in-place entry point. Per-entry and per-mutation counters in per_subcheck.classes. '
          'Second and third unit: the history interpreter of C09/C10/C14 (rapidcheck, T=Q; libFuzzer, T=double) with the C08 oracle - in EVERY step of a generated call history each multi-spline / multi-support call (+ - * += -= linearCombination, forms, spline-factor operators, union, intersection) whose arguments live on logically different grids must throw with the differing-grids code, whatever the objects went through before; '
          'a composite opcode (P_REGRID) first combines a working object in both operand positions with a partner on an EQUAL grid held in a DISTINCT object (must succeed), then re-seats the working object onto another grid through one of five assignment / move / swap paths (or not at all), then repeats the combination in both positions: refused iff the grids now differ, arguments unchanged; same on Support level incl. hasSameGrid. Non-trivial there: at least one call on logically different grids.'),
    technique='rapidcheck generation of grid-pair mutations x entry points; oracle = exception type/code, operand snapshots, shared-instance differential',
    level_text='Generated-input search over every multi-spline entry point and every way two grids can differ; both halves (refuse different, accept equal-in-distinct-object) are checked. Sampling, not proof.',
    level_note='For a BilinearForm with a spline factor whose operands share no interval neither a throw nor a value is demanded (guard unreachable, DESIGN 6.2). Q and double.',
    assumptions=[EXACT, SAN],
)

# ---------------------------------------------------------------- histories (C09, C10, C14)
import json as _json, os as _os, shutil as _shutil, glob as _glob, time as _time

HIST_T = T('h_hist', parts=4)
HIST_T_CHECKS = T('h_hist_checks', kind='asan_checks', src=['harness/h_hist.cpp'], parts=4)
FUZZ_T = T('fuzz_history', kind='fuzz', parts=4)

def fuzz_unit(focus_mask, quick_runs, thorough_runs, thorough_jobs=16):
    """custom unit: libFuzzer campaign over the history interpreter (T=double)."""
    def run(u, tier, res, env):
        exe, bl = env['build'](FUZZ_T)
        if exe is None:
            res.notes.append('BUILD-FAILED fuzz_history log=%s' % bl)
            res.extra.setdefault('build_failures', []).append(bl)
            return
        HERE, BUILD, REPLAYS, SEED = env['HERE'], env['BUILD'], env['REPLAYS'], env['SEED']
        jobs = 4 if tier == 'quick' else thorough_jobs
        runs = quick_runs // 4 if tier == 'quick' else thorough_runs
        work = _os.path.join(BUILD, 'fuzzwork-%d-%d' % (_os.getpid(), focus_mask))
        _shutil.rmtree(work, ignore_errors=True)
        _os.makedirs(work)
        procs = []
        for k in range(jobs):
            corp = _os.path.join(work, 'corpus%d' % k)
            _os.makedirs(corp)
            # even jobs start from the committed seed corpus, odd jobs from an empty one
            if k % 2 == 0:
                for f in _glob.glob(_os.path.join(HERE, 'corpus', 'history', '*')):
                    _shutil.copy(f, corp)
            art = _os.path.join(work, 'art%d-' % k)
            cnt = _os.path.join(work, 'cnt%d.json' % k)
            e = dict(_os.environ, HIST_FOCUS=str(focus_mask), HIST_COUNTERS=cnt,
                     ASAN_OPTIONS='detect_leaks=1:abort_on_error=0', UBSAN_OPTIONS='print_stacktrace=1')
            cmd = [exe, '-runs=%d' % runs, '-seed=%d' % (SEED * 131 + k + 1), '-max_len=1000', '-len_control=50', '-artifact_prefix=' + art,
                   '-print_final_stats=1', '-timeout=60', '-rss_limit_mb=4096', corp]
            procs.append((k, cmd, e, cnt, art))
        from concurrent.futures import ThreadPoolExecutor
        def go(p):
            k, cmd, e, cnt, art = p
            return p, env['run_proc'](cmd, timeout=6 * 3600, env=e)
        tot = dict(execs=0, steps=0, nontrivial=0, with_moves=0, with_throws=0, ops={})
        ntkey = {1: 'nontrivial_c09', 2: 'nontrivial_c10', 4: 'nontrivial_c14', 32: 'nontrivial_c08'}[focus_mask]
        with ThreadPoolExecutor(max_workers=jobs) as ex:
            for (k, cmd, e, cnt, art), (rc, so, se, wall) in ex.map(go, procs):
                if _os.path.exists(cnt):
                    try:
                        j = _json.load(open(cnt))
                        tot['execs'] += j['execs']; tot['steps'] += j['steps']; tot['nontrivial'] += j[ntkey]
                        tot['with_moves'] += j['with_moves']; tot['with_throws'] += j['with_throws']
                        for n, c in j['ops'].items():
                            tot['ops'][n] = tot['ops'].get(n, 0) + c
                    except Exception as ex2:
                        res.notes.append('fuzz counters unreadable: %s' % ex2)
                # only crash-/leak- artefacts are violations; slow-unit/timeout/oom are load noise
                for a in _glob.glob(art + 'crash-*') + _glob.glob(art + 'leak-*'):
                    dst = _os.path.join(REPLAYS, 'fuzz-%s-%s' % (u['pid'], _os.path.basename(a).split('-', 1)[1]))
                    _shutil.copy(a, dst)
                    tail = [l for l in se.splitlines() if 'ORACLE-FAILURE' in l or 'ERROR:' in l or 'history:' in l or 'runtime error' in l]
                    res.extra.setdefault('fuzz_candidates', []).append(dst)
                    res.candidates.append(([exe], dst, ' | '.join(tail)[:1500], dict(_os.environ, HIST_FOCUS=str(focus_mask))))
                if rc not in (0,) and not (_glob.glob(art + 'crash-*') or _glob.glob(art + 'leak-*')):
                    res.notes.append('fuzzer job %d ended rc=%s without crash artefact (load noise / inconclusive): %s' % (k, rc, se[-300:].replace('\n', ' ')))
        res.extra['fuzz'] = dict(engine='libFuzzer', jobs=jobs, runs_per_job=runs, executions=tot['execs'], steps=tot['steps'],
                                 nontrivial_executions=tot['nontrivial'], executions_with_moves=tot['with_moves'],
                                 executions_with_throwing_calls=tot['with_throws'], opcode_counts=tot['ops'],
                                 note='libFuzzer executions are counted separately from the rapidcheck evaluations; non-trivial by the same rule, distinctness not measured for fuzz inputs')
        _shutil.rmtree(work, ignore_errors=True)
    def replay(path, env):
        if not _os.path.basename(path).startswith('fuzz-'):
            return False
        exe, bl = env['build'](FUZZ_T)
        if exe is None:
            return False
        e = dict(_os.environ, HIST_FOCUS=str(focus_mask))
        rc, so, se, _ = env['run_proc']([exe, path], timeout=600, env=e)
        print(se[-3000:])
        return rc != 0
    return dict(custom=run, replay=replay, prebuild=[FUZZ_T])

PROPS['C08']['units'][2] = fuzz_unit(32, 40000, 300000)

HIST_RULE = ('histories = sequences of opcodes (54 kinds: every constructor/factory with valid and deliberately invalid arguments, copy, move, copy-/move-assignment, self-assignment, self-move-assignment (splines and supports), std::swap, cross-order assignment, re-seating onto another grid (P_REGRID), operator objects copied / assigned / moved with their source destroyed, '
             'scalar * / *= /=, unary minus, + - * across orders 0..3, += -=, linearCombination, primitive / compound / spline-valued operator application, linear and bilinear forms, evaluation, union/intersection, checked accessors with index classes around 2^32, 2^63, SIZE_MAX, '
             'calls that must throw) over a pool of grids, supports and splines; rapidcheck generates vector<Op> (free histories of size-scaled length and histories with a populating prefix + 1..40 ops), libFuzzer mutates the same encoding as bytes (T=double). ')

PROPS['C10'] = dict(
    units=[dict(target=HIST_T, quick=dict(args=['--focus', 'C10'], scale=4.0), thorough=dict(args=['--focus', 'C10', '--max-size', '200'], scale=12.0, shards=8)),
           dict(target=HIST_T_CHECKS, quick=dict(args=['--focus', 'C10'], scale=1.0), thorough=dict(args=['--focus', 'C10', '--max-size', '200'], scale=6.0, shards=8)),
           fuzz_unit(2, 150000, 700000)],
    rule=HIST_RULE + 'Oracle (C10) after EVERY step, for EVERY live object, through public accessors: grid >= 2 strictly increasing points; support (0,0) or start<end<=grid size with consistent size/empty/interval count; spline coefficient-array count == interval count; '
         'moved-from support/spline is empty/interval-free on the same grid, behaves as the zero spline when added / multiplied / assigned to; self-copy-assignment preserves the value; the harness is also built with BSPLINE_ADD_TEST_CHECKS so an INCONSISTENT_DATA from a self-check on valid input is a failure. '
         'Non-trivial: the history contains a move or a failing call followed by a further use of an object involved. Distinct = distinct history text.',
    technique='model-based stateful testing: rapidcheck-generated API call histories + libFuzzer byte-mutated histories, class invariants checked after every step',
    engine='rapidcheck + libFuzzer',
    level_text='Generated-history search (stateful, model-based) with the invariant oracle run after every step on every live object, in two library configurations, plus a coverage-guided campaign over the same interpreter. Sampling of an infinite history space, not proof.',
    level_note='Trusted: the interpreter (hist.h) and the sanitizers. For x = std::move(x) only the invariants are required afterwards (DESIGN 6.3). Spline orders 0..3 in the pool; results of higher order are checked and dropped.',
    assumptions=[EXACT, SAN],
)
PROPS['C14'] = dict(
    units=[dict(target=HIST_T, quick=dict(args=['--focus', 'C14'], scale=0.6, shards=4), thorough=dict(args=['--focus', 'C14', '--max-size', '200'], scale=4.0, shards=16)),
           fuzz_unit(4, 12000, 80000)],
    rule=HIST_RULE + 'Oracle (C14): before/after snapshots (grid points incl. getData(), window, coefficient arrays, three evaluations) of EVERY object that is not the declared target of the step are identical; a copy / assigned object equals its source; '
         'moved-to equals the source\'s former state; a op= b equals a op b; an in-place call that throws leaves its target unchanged. Non-trivial: an object with a live copy/derivative is mutated in place, or an in-place call throws. Distinct = distinct history text.',
    technique='model-based stateful testing: generated API call histories with before/after snapshots of every non-target object',
    engine='rapidcheck + libFuzzer',
    level_text='Generated-history search with full-pool snapshot comparison after every step (exact in Q, bitwise in double under libFuzzer). Sampling, not proof.',
    level_note='Trusted: the interpreter\'s declaration of each opcode\'s target objects (hist.h) and the snapshot function (public accessors only).',
    assumptions=[EXACT, SAN],
)
def valgrind_unit():
    """thorough only: memcheck pass (uninitialised reads are invisible to ASan/UBSan) over generated histories and the regression replays."""
    VT = T('h_hist_plain', kind='valgrind', src=['harness/h_hist.cpp'], parts=4)
    def run(u, tier, res, env):
        if tier != 'thorough':
            return
        exe, bl = env['build'](VT)
        if exe is None:
            res.notes.append('BUILD-FAILED h_hist_plain log=%s' % bl); return
        outs = []
        from concurrent.futures import ThreadPoolExecutor
        def go(k):
            out = _os.path.join(env['BUILD'], 'vg-%d-%d.json' % (_os.getpid(), k))
            cmd = ['valgrind', '--error-exitcode=99', '-q', '--track-origins=yes', exe, '--focus', 'C09', '--seed', str(env['SEED'] * 31 + k), '--scale', '0.03', '--out', out, '--replay-dir', env['REPLAYS']]
            return k, out, cmd, env['run_proc'](cmd, timeout=3 * 3600)
        tot = 0
        with ThreadPoolExecutor(max_workers=8) as ex:
            for k, out, cmd, (rc, so, se, w) in ex.map(go, range(8)):
                if _os.path.exists(out):
                    j = _json.load(open(out)); tot += sum(s['evaluations'] for s in j['subs'].values()); _os.unlink(out)
                if rc == 99 or 'Conditional jump' in se or 'uninitialised' in se:
                    p = _os.path.join(env['REPLAYS'], 'valgrind-C09-%d.txt' % k)
                    open(p, 'w').write('command: %s\n%s' % (' '.join(cmd), se[-8000:]))
                    res.candidates.append((['/bin/sh', '-c', ' '.join(cmd) + ' >/dev/null 2>&1; test $? -eq 99 && exit 1; exit 0', 'sh'], p, 'valgrind memcheck error: ' + se[:300], None))
        res.extra['valgrind_memcheck'] = dict(histories=tot, processes=8, note='plain g++ -O1 build of the rapidcheck history harness under valgrind --track-origins (uninitialised-value use)')
    return dict(custom=run, prebuild_thorough=[VT], prebuild_quick=[])

PROPS['C09'] = dict(
    units=[valgrind_unit(), et_unit('C09', '', 0.6, 3.0), dict(target=HIST_T, quick=dict(args=['--focus', 'C09'], scale=4.0), thorough=dict(args=['--focus', 'C09', '--max-size', '200'], scale=12.0, shards=8)),
           fuzz_unit(1, 250000, 1200000)],
    rule=HIST_RULE + 'Oracle (C09): no ASan / UBSan / _GLIBCXX_ASSERTIONS (rapidcheck build) or _GLIBCXX_DEBUG (libFuzzer build) report, no foreign exception (std::out_of_range, bad_optional_access, ...) and no BSplineException from a call whose preconditions hold; '
         'checked accessors (Grid::at, Support::at, absoluteFromRelative, front/back) throw exactly for indices outside the view and otherwise return the element grid[start+index]. '
         'Non-trivial: a spline-factor operator applied where the factor\'s support ends inside the operand, a cross-order operation on partly overlapping windows, or an accessor index above 2^32. Distinct = distinct history text.',
    technique='coverage-guided fuzzing (libFuzzer, ASan+UBSan+_GLIBCXX_DEBUG) and rapidcheck generation of API call histories; oracle = sanitizer reports + accessor-throws predicate',
    engine='libFuzzer + rapidcheck',
    level_text='Sanitizer-instrumented search over generated and coverage-guided call histories with valid arguments, and an index sweep incl. the extremes of size_t (C13 enumerates the same accessors exhaustively on small grids). Absence of reports on everything explored, not proof. Every other harness of this suite also runs under the same sanitizers.',
    level_note='Trusted: ASan/UBSan/libstdc++ debug mode detect what they instrument; uninitialised reads are not covered by these sanitizers (MSan unusable: no instrumented libstdc++).',
    assumptions=[SAN],
)

# ---------------------------------------------------------------- expression programs (C05, C06, C07)
import subprocess as _subprocess, sys as _sys
CAT_N = 11
def cat_units(prefix, pid, qscale, tscale):
    us = []
    for k in range(CAT_N):
        t = T('cat_%02d' % k, src=['harness/expr_catalog/cat_%02d.cpp' % k], deps=['harness/expr_common.h'])
        a = ['--prefix', prefix, '--property', pid]
        us.append(dict(target=t, quick=dict(args=a, scale=qscale), thorough=dict(args=a, scale=tscale, shards=2)))
    return us

def forms_unit(prefix, pid):
    a = ['--prefix', prefix, '--property', pid]
    return dict(target=T('h_forms'), quick=dict(args=a, scale=1.0), thorough=dict(args=a, scale=8.0, shards=4))

def gen_unit(prefix, pid, n_units=16, per=6, scale=2.0):
    """thorough only: fresh expression programs drawn from VERIF_SEED, compiled in parallel."""
    def run(u, tier, res, env):
        if tier != 'thorough':
            return
        HERE, BUILD, REPLAYS, SEED = env['HERE'], env['BUILD'], env['REPLAYS'], env['SEED']
        gdir = _os.path.join(BUILD, 'gen-s%d' % SEED)
        r = _subprocess.run([_sys.executable, _os.path.join(HERE, 'harness', 'exprgen.py'), str(SEED), str(n_units), str(per), gdir], capture_output=True, text=True)
        if r.returncode != 0:
            res.notes.append('exprgen failed: ' + r.stderr[-500:])
            return
        targets = [T('gen_s%d_%02d' % (SEED, k), src=[_os.path.join(gdir, 'gen_s%d_%02d.cpp' % (SEED, k))], deps=['harness/expr_common.h']) for k in range(n_units)]
        from concurrent.futures import ThreadPoolExecutor
        with ThreadPoolExecutor(max_workers=env['JOBS']) as ex:
            built = list(ex.map(env['build'], targets))
        import importlib
        chk = _sys.modules['__main__']
        before = len(res.candidates)
        for t, (exe, bl) in zip(targets, built):
            if exe is None:
                res.notes.append('BUILD-FAILED %s log=%s' % (t['name'], bl))
                res.extra.setdefault('build_failures', []).append(bl)
        with ThreadPoolExecutor(max_workers=env['JOBS']) as ex:
            list(ex.map(lambda t: chk.run_unit(dict(target=t, thorough=dict(args=['--prefix', prefix, '--property', pid], scale=scale)), 'thorough', res, 'gen-%s' % t['name']),
                        [t for t, (exe, bl) in zip(targets, built) if exe]))
        for cand in res.candidates[before:]:
            path = cand[1]
            for t in targets:
                if _os.path.exists(path) and ('target: ' + t['name'] + '\n') in open(path).read():
                    dst = _os.path.join(REPLAYS, t['name'] + '.cpp')
                    _shutil.copy(t['src'][0], dst)
                    with open(path, 'a') as f:
                        f.write('source: %s\n' % dst)
        res.extra['generated_programs'] = dict(seed=SEED, translation_units=n_units, expression_types=n_units * per)
    def replay(path, env):
        txt = open(path, errors='replace').read()
        m = _re.search(r'^source: (.*)$', txt, _re.M)
        tn = _re.search(r'^target: (.*)$', txt, _re.M)
        if not m or not tn or not _os.path.exists(m.group(1)):
            return False
        exe, bl = env['build'](T(tn.group(1), src=[m.group(1)], deps=['harness/expr_common.h']))
        if exe is None:
            return False
        rc, so, se, _ = env['run_proc']([exe, '--prefix', prefix, '--property', pid, '--replay', path], timeout=600)
        print(so[-2000:])
        return rc not in (0, 2)
    return dict(custom=run, replay=replay)
import re as _re

EXPR_RULE = ('expression programs: operator expression TYPES are sampled by generating C++ source from the grammar E ::= I | X<n> | Dx<n> | SplineOperator{f_k} | E*E | E+E | E-E | c*E | E*c | E/c | E+c | c+E | E-c | c-E | -E with c a T-valued or an int literal '
             '(depth <= 5, output order <= 6, rvalue-built trees only - the form the library compiles and every caller uses). Quick: the committed catalogue of 66 programs (16 fixed members + 18 extra members: X<4..7>, Dx<5>, unsigned / size_t / long / unsigned short scalars in every scalar position, unary minus and subtraction applied directly to nodes scaled by an unsigned scalar: scalar product pair, commutator, both associativity forms, the four example Hamiltonians, int division, every scalar production; 32 generated covering every production with both scalar types); '
             'thorough adds 96 fresh expression types from VERIF_SEED (30% of their non-rational scalar literals are unsigned / size_t / long / unsigned short). Per expression: random grids (2..9 points, incl. far from origin / non-uniform), operand orders 0..3, factor splines of orders 0,1,2 placed relative to the operand by constructed class '
             '(covers, strictly inside, ENDS inside, starts inside, touching, gap, interval-free). Library instantiated with the exact scalar Q. ')
PROPS['C05'] = dict(
    units=cat_units('apply', 'C05', 1.0, 6.0) + [et_unit('C05', 'et-operators'), gen_unit('apply', 'C05')],
    rule=EXPR_RULE + 'Oracle (C05): AST interpreter over the reference model implementing exactly the equations of the statement; equality on every grid interval. Non-trivial: >= 2 internal nodes and operand with >= 1 interval. Distinct = distinct case text; counters per production, factor placement and operand order.',
    technique='generated C++ expression programs (grammar-based program generation) driven by rapidcheck inputs, compared with an AST interpreter over an exact reference model',
    engine='exprgen.py + rapidcheck',
    level_text='Exact generated-input search over sampled expression types and generated operands; every production, scalar type and factor placement class is covered and counted. Sampling of an infinite type and input space, not proof.',
    level_note='Trusted: GMP, ref.h, the AST interpreter (13 equations). Expression trees with lvalue operands do not compile and are outside the domain (DESIGN 6.8).',
    assumptions=[EXACT, SAN],
)
PROPS['C06'] = dict(
    units=cat_units('bilinear', 'C06', 1.0, 6.0) + [forms_unit('bilinear', 'C06'), et_unit('C06', 'et-forms'), gen_unit('bilinear', 'C06')],
    rule=EXPR_RULE + 'Oracle (C06): operator pairs (expression i with partner pi(i); identity with itself) x spline pairs by constructed placement class x four (order_a, order_b) combinations per pair; expected value = exact integral of the product of the two interpreted functions (antiderivative in Q); '
         'zero without common interval; B{O1,O2}(a,b) == B{O2,O1}(b,a); linearity with generated rational alpha, beta and a second operand; ScalarProduct == B{I,I}. Non-trivial: >= 1 common interval and (non-identical windows or different orders or non-identity operators). Kernel parity (odd/even sizes) counted. Form objects (h_forms.cpp): forms built from NAMED operators (lvalue, const lvalue, local of a function) and evaluated after the variable was reassigned; form(s, s) with one spline object on both sides; two operators of one C++ type with different run-time state (8 families), all against the exact integral.',
    technique='generated C++ expression programs + rapidcheck inputs; oracle = exact antiderivative of the product polynomial, metamorphic relations (swap, bilinearity)',
    engine='exprgen.py + rapidcheck',
    level_text='Exact generated-input search over sampled operator pairs and generated spline pairs with all placements; sampling, not proof.',
    level_note='Trusted: GMP, ref.h, AST interpreter.',
    assumptions=[EXACT, SAN],
)
PROPS['C07'] = dict(
    units=cat_units('linform', 'C07', 1.0, 6.0) + [forms_unit('linform', 'C07'), et_unit('C07', 'et-forms'), gen_unit('linform', 'C07')],
    rule=EXPR_RULE + 'Oracle (C07): LinearForm{O}(a) == exact integral of the interpreted function over a\'s support (zero for interval-free a), operator() == evaluate(), == LinearForm{}(O a); and for operator pairs and spline pairs of all placements B{O1,O2}(a,b) == LinearForm{}((O1 a)*(O2 b)) == exact integral. '
         'Non-trivial: >= 1 interval and kernel size >= 2 (linear form); >= 1 common interval (product identity). Both kernel parities counted. Form objects (h_forms.cpp): the product identity with ONE spline object on both sides and same-type operators of different state (8 families); LinearForm built from named operators and evaluated after reassignment.',
    technique='generated C++ expression programs + rapidcheck inputs; oracle = exact integral from the reference model and agreement with the bilinear form',
    engine='exprgen.py + rapidcheck',
    level_text='Exact generated-input search; sampling, not proof.',
    level_note='Trusted: GMP, ref.h, AST interpreter.',
    assumptions=[EXACT, SAN],
)

PROPS['C12'] = dict(
    units=[et_unit('C12', 'et-interpolation'), dict(target=T('h_interp', parts=4), quick=dict(scale=1.0), thorough=dict(scale=5.0, shards=16))],
    rule=('random abscissa sets: windows of >= 2 points (whole grid or strict sub-window) of grids with 2..9 points incl. two-point inputs and gap ratios up to 128; ordinates; order 1..5; boundary sets: default (35%) or generated (node, derivative 1..order, value) tuples incl. duplicates. '
          'The exact solve (Gaussian elimination in Q) decides unique solvability; exactly singular problems are discarded and counted. Oracle A (interpolate<Q,order,exact solver>): support == input window; both adjacent pieces take y_i at x_i; derivatives 1..order-1 continuous at interior nodes; '
          'every boundary row holds; the default set is {(first,1),(last,1),(first,2),...} = 0; all exact, checked both through the row formulation and through the absolute-basis pieces. Oracle B (interpolateUsingEigen<double|long double>): the same conditions, residuals evaluated exactly from the returned coefficients, '
          '<= 2^10 * eps * (||M||_F ||x||_2 + ||b||_2) with M re-assembled by the harness. Non-trivial: >= 3 nodes or non-default boundaries or strict sub-window.'),
    technique='rapidcheck generation; oracle = exact rational solver residuals (A) and norm-wise backward-error bound with exactly evaluated residuals (B)',
    level_text='Generated-input search: exact for the generic routine, calibrated backward-error bound for the bundled Eigen adapter (observed worst ratio is printed by the harness; bound has >= 2^9 head-room). Sampling, not proof.',
    level_note='Trusted: GMP, the harness Gaussian elimination, the row formulation transcribed from the statement. Armadillo adapter not exercised (library not installed).',
    assumptions=[EXACT, SAN, 'backward-error level is read norm-wise (DESIGN 6.5)'],
)

def c16_variants_unit():
    """C16 configuration dimension: self-checks on/off must give byte-identical values; -O0/-O2/-O3 with g++ and clang++ must each satisfy the bound."""
    FL = lambda name, kind, extra=None: T(name, kind=kind, src=['harness/h_float.cpp'], parts=4, deps=['harness/expr_common.h'], extra_flags=extra or [])
    base = FL('h_float', 'asan')
    chk = FL('h_float_checks', 'asan_checks')
    variants = [FL('h_float_gxx_O0', 'plain', ['-O0']), FL('h_float_gxx_O2', 'plain', ['-O2']), FL('h_float_gxx_O3', 'plain', ['-O3']), FL('h_float_clang_O3', 'clangplain', ['-O3'])]
    def run(u, tier, res, env):
        chkmod = _sys.modules['__main__']
        BUILD, SEED = env['BUILD'], env['SEED']
        # (1) transcripts with and without BSPLINE_ADD_TEST_CHECKS
        outs = []
        for t in (base, chk):
            exe, bl = env['build'](t)
            if exe is None:
                res.notes.append('BUILD-FAILED %s log=%s' % (t['name'], bl)); res.extra.setdefault('build_failures', []).append(bl); return
            tr = _os.path.join(BUILD, 'transcript-%s-%d.txt' % (t['name'], _os.getpid()))
            e = dict(_os.environ, VERIF_TRANSCRIPT=tr)
            rc, so, se, w = env['run_proc']([exe, '--seed', str(SEED * 77 + 5), '--scale', '0.5' if tier == 'quick' else '3.0'], timeout=3600, env=e)
            outs.append((tr, rc))
        same = all(rc == 0 for _, rc in outs) and open(outs[0][0], 'rb').read() == open(outs[1][0], 'rb').read()
        nlines = sum(1 for _ in open(outs[0][0])) if _os.path.exists(outs[0][0]) else 0
        res.extra['selfcheck_differential'] = dict(cases=nlines, byte_identical=bool(same))
        if not same and all(rc == 0 for _, rc in outs):
            dst = _os.path.join(env['REPLAYS'], 'C16-selfcheck-transcripts-differ.txt')
            a = open(outs[0][0]).read().splitlines(); b = open(outs[1][0]).read().splitlines()
            with open(dst, 'w') as f:
                f.write('property: C16\nreason: values differ between builds with and without BSPLINE_ADD_TEST_CHECKS\n')
                for x, y in zip(a, b):
                    if x != y:
                        f.write('without: %s\nwith:    %s\n' % (x, y)); break
            res.candidates.append((['/bin/false'], dst, 'values depend on BSPLINE_ADD_TEST_CHECKS', None))
        for tr, _ in outs:
            if _os.path.exists(tr): _os.unlink(tr)
        # (2) optimisation levels / compilers
        for t in variants if tier == 'thorough' else variants[1:2]:
            chkmod.run_unit(dict(target=t, quick=dict(scale=0.5), thorough=dict(scale=2.0, shards=4)), tier, res, 'C16-' + t['name'])
        res.extra['optimisation_variants'] = [t['name'] for t in (variants if tier == 'thorough' else variants[1:2])]
    return dict(custom=run, prebuild=[base, chk] + variants, prebuild_quick=[base, chk, variants[1]])

PROPS['C16'] = dict(
    units=[dict(target=T('h_float', parts=4, deps=['harness/expr_common.h']), quick=dict(scale=1.0), thorough=dict(scale=6.0, shards=16)),
           dict(target=T('h_gen', parts=4), quick=dict(args=['--prefix', 'float-types', '--property', 'C16'], scale=1.0), thorough=dict(args=['--prefix', 'float-types', '--property', 'C16'], scale=6.0, shards=8)),
           dict(target=T('h_eval', parts=4), quick=dict(args=['--prefix', 'eval-float', '--property', 'C16'], scale=1.0), thorough=dict(args=['--prefix', 'eval-float', '--property', 'C16'], scale=4.0, shards=8)),
           c16_variants_unit()],
    rule=('the statement\'s well-scaled domain, constructed: grid points k/8 with |x| <= 8, gaps >= 1/8 (classes: near origin, FAR from origin with minimal gaps, strongly non-uniform), orders <= 6 incl. growth, dyadic coefficients and scalars |v| <= 8, so every input is exactly representable in all types. '
          'Each case is ONE library operation (a+b, a-b incl. cancelling pairs, a*b, a*c, a/c, linearCombination, Dx<0..4>, X<0..2>, evaluation, LinearForm / BilinearForm / application of 10 operator expressions incl. spline factor, commutator, a float scalar on wider splines and a non-power-of-two int divisor) executed in float/double/long double and compared with the exact result from the reference model (ref.h + AST interpreter, no library code); '
          'plus whole B-spline generation (orders 0..6, all multiplicity shapes) and evaluation incl. one ulp around grid points. Error measure E = sum_k |c_fl - c_exact| h^k per interval (|v_fl - v_exact| for scalars), bound 2^20 * eps * S, S = absolute-value shadow (same formula on |coefficients|, (|u|+|xm|)^n for X<n>). '
          'Configuration: transcripts of all values (hex-float) with and without BSPLINE_ADD_TEST_CHECKS must be byte-identical; g++ -O0/-O2/-O3 and clang++ -O3 builds must satisfy the same bound. Observed maxima (log2 of eps units) are reported in metrics_max. Non-trivial: order >= 2 and (|x| >= 4 or gap ratio >= 8 or cancelling operands).'),
    technique='rapidcheck generation in the well-scaled domain; differential against the exact rational run of the same operation with an absolute-value shadow bound; configuration differential (self-checks on/off, optimisation levels, two compilers)',
    level_text='Generated-input search with an exact reference and a stated bound with measured head-room (> 2^13 on the unchanged tree); the far-from-origin / minimal-gap class, where a computation about a distant point costs 2^21..2^42, is weighted explicitly. Sampling, not proof.',
    level_note='The statement does not define "terms involved"; the absolute-value shadow in midpoint coordinates is used (DESIGN 6.6). Exact results come from the reference model, not from the library.',
    assumptions=[EXACT, 'IEEE-754 arithmetic, no -ffast-math; x87 long double'],
)

PROPS['C17'] = dict(
    units=[dict(target=T('h_quad', parts=4), quick=dict(scale=1.0), thorough=dict(scale=6.0, shards=16))],
    rule=('spline pairs (orders (0..3)^2, constructed placement classes: identical, nested, partial, touching, gap, interval-free), polynomial weights of degree 0..3 with dyadic coefficients, n = 1..6 (template parameter), double and long double, so both sides of 2n-1 >= order1+order2+d occur for every degree. '
          'Oracle: (both sides) an independent n-point Gauss-Legendre rule (Newton on the Legendre recurrence in long double, summed EXACTLY in Q over the common intervals of the set model) - pins "extends over exactly the common intervals" also where the rule is inexact; '
          '(exact side) the exact integral of m1*f*m2 from the reference model and the library\'s own analytic BilinearForm with sum f_k X<k> as operator; zero without common interval; additivity over single-interval restrictions of m1. Tolerance 2^12 * eps * S with S the absolute-value shadow integral; observed maxima in metrics_max. '
          'Non-trivial: >= 1 common interval and (windows not identical or orders differ); counters per side, n, placement, degree.'),
    technique='rapidcheck generation; oracle = exact rational integral (where the rule is exact) and an independent Gauss-Legendre rule summed exactly over the set-model intervals',
    level_text='Generated-input search on both sides of the exactness bound with two independent oracles and a stated rounding allowance with measured head-room. Sampling, not proof.',
    level_note='Trusted: GMP, ref.h, the harness Gauss-Legendre nodes (long double Newton), boost::math::quadrature::gauss as shipped.',
    assumptions=[EXACT, SAN],
)

def _c19_units():
    a = lambda *x: ['--property', 'C19'] + list(x)
    us = [dict(target=T('h_archetype', deps=['harness/common/qsolver.h']), quick=dict(args=a(), scale=1.0), thorough=dict(args=a(), scale=6.0, shards=4)),
          et_unit('C19', '', 1.0, 4.0),
          dict(target=T('h_archetype_static', kind='plain', extra_flags=['-O1']), quick=dict(args=a(), scale=1.0), thorough=dict(args=a(), scale=1.0)),
          dict(target=T('h_gen', parts=4), quick=dict(args=a('--prefix', 'exact'), scale=0.25), thorough=dict(args=a('--prefix', 'exact'), scale=1.0, shards=4)),
          dict(target=T('h_arith', parts=4), quick=dict(args=a(), scale=0.2), thorough=dict(args=a(), scale=1.0, shards=4)),
          dict(target=T('h_prim', parts=6), quick=dict(args=a(), scale=0.25), thorough=dict(args=a(), scale=1.0, shards=4)),
          dict(target=T('h_interp', parts=4), quick=dict(args=a('--prefix', 'exact-solver'), scale=0.3), thorough=dict(args=a('--prefix', 'exact-solver'), scale=1.0, shards=4))]
    for k in (0, 1, 2):
        t = T('cat_%02d' % k, src=['harness/expr_catalog/cat_%02d.cpp' % k], deps=['harness/expr_common.h'])
        us.append(dict(target=t, quick=dict(args=a(), scale=0.3), thorough=dict(args=a(), scale=2.0)))
    def boost(u, tier, res, env):
        if tier != 'thorough':
            return
        _sys.modules['__main__'].run_unit(dict(target=T('h_archetype_boost'), thorough=dict(args=a(), scale=3.0, shards=4)), tier, res, 'C19-boost')
    us.append(dict(custom=boost, prebuild_thorough=[T('h_archetype_boost')], prebuild_quick=[]))
    return us
PROPS['C19'] = dict(
    units=_c19_units(),
    build_failure_is_violation=True,
    rule=('configuration x inputs. (1) Compile check: h_archetype.cpp explicitly instantiates every class template of the library (Grid, Support, Spline<0..4>, BSplineGenerator, SplineOperator, ScalarMultiplication, OperatorProduct, OperatorSum, LinearForm, BilinearForm, Boundary, ISolver) with the archetype scalar Q - only default/copy construction, explicit construction from int, + - * / and compound forms, unary minus, six comparisons; '
          'no implicit conversion, no <cmath>, no numeric_limits, no streaming - and calls every member template and free function template incl. interpolate<Q,order,user solver>; every other exact harness (C01-C08, C10-C15) compiles the library with the same type. A compile failure is the violation (replay = compiler log). '
          '(1b) h_archetype_static.cpp (g++): a table of forms / evaluations / predicates computed from a namespace-scope initialiser must equal the same calls made in main() and the textbook values (the type need not be constant-initialisable). '
          '(2) Exactness: an API sweep over generated inputs (600 cases x ~45 operations) plus reduced runs of the exact sub-checks of C01, C03, C04, C05/C06/C07 (24 catalogue programs) and C12: all results exact. Thorough adds boost::multiprecision::cpp_rational (exact agreement) and cpp_bin_float_quad (1e-24). '
          'Non-trivial: operand with >= 1 interval (sweep); the rules of the reused sub-checks otherwise.'),
    technique='archetype-type instantiation (compile check over all templates) + rapidcheck generation with exact comparison against the reference model',
    engine='clang++ + rapidcheck',
    level='exploration',
    level_text='The quantifier "all scalar types satisfying the requirements" is attacked with a minimal archetype: whatever compiles and is exact for Q uses only the documented operations. Template space = every class template and every function template of Core.h and interpolation.h, at the orders instantiated. Generated-input search for exactness. Not a proof over all types.',
    level_note='A type with only explicit construction from int cannot detect static_cast<T>(0.5)-style truncation at compile time; that is caught by the exactness runs. Orders > 6 and operator nestings outside the catalogue are not instantiated.',
    assumptions=[EXACT, SAN],
)

PROPS['C18'] = dict(
    confirm_any=True,  # schedules are not reproducible: a replay runs the workload 20 times, one failing replay confirms
    units=[dict(target=T('h_threads', kind='tsan'), quick=dict(args=['--repeats', '3', '--no-shrink'], scale=0.6, shards=6, timeout=600), thorough=dict(args=['--repeats', '5', '--no-shrink'], scale=3.0, shards=16, timeout=3600)),
           dict(target=T('h_threads_q', kind='tsan'), quick=dict(args=['--no-shrink'], scale=1.0, shards=4, timeout=600), thorough=dict(args=['--no-shrink'], scale=6.0, shards=16, timeout=3600))],
    rule=('generated multi-thread workloads: a shared CONST pool (one grid, 3..6 windows each materialised as splines of orders 0..3, their supports, a BSplineGenerator, two compound operator expressions, a SplineOperator, LinearForm, BilinearForm, ScalarProduct objects) + per-thread op lists (4..24 ops from 16 kinds: evaluate, copy+destroy, copy-assign, a+b, a-b, a*b, '
          'apply shared operator, apply shared spline operator, linear form, bilinear form (incl. copying a shared SplineOperator), generateBSplines on the shared generator, predicates, linearCombination over the shared vector, support union/intersection/copy, numerical integration, grid copy, a 1500-point evaluation sweep of ONE shared spline from thread-specific starts (values compared bitwise, which also catches state kept in relaxed atomics that the race detector cannot see), mixing shared splines (as LEFT operand) with splines on a logically equal grid held in a distinct object, mixing them with splines of a generator each thread builds itself from the same points, operator / quadrature template instances the tests never use: X<4..6>, Dx<3>, Dx<5>, integrate<2>, integrate<5>) for 2/3/4/8/16 threads with generated yield/spin patterns; all threads start behind one barrier; every workload is executed 3 (quick) or 5 (thorough) times, threads FIRST and the sequential reference afterwards (a sequential warm-up would hide lazily initialised state); every process (6 in quick, 16 in thorough) begins with a cold-start workload in which four threads run every op kind at once. '
          'Oracle: ThreadSanitizer with halt_on_error (any report is a violation) and bitwise equality of every thread\'s result vector with a sequential run of the same op list. Non-trivial: >= 2 threads and >= 4 ops. Distinct = distinct workload text. '
          'Second unit (h_threads_q.cpp): the same idea with a CLASS-TYPE scalar (the exact archetype: owns heap storage, non-trivial copy and destructor) - 2..8 threads run 12 op kinds (forms, evaluation, arithmetic, operator application incl. spline factor, generation, linearCombination, in-place ops on private copies) 5..40 rounds on a shared const pool, half of the threads in the same order so that the same kernels run at the same time; every exact result must equal the sequential run made afterwards; ThreadSanitizer sees the scalar\'s own (inline) operators.'),
    technique='rapidcheck-generated multi-thread workloads executed under ThreadSanitizer (happens-before race detection) with a sequential-run differential',
    engine='rapidcheck + ThreadSanitizer',
    level_text='Schedules are SAMPLED, not enumerated. TSan reports an unsynchronised access pair whenever both accesses are executed, largely independent of the interleaving, which is what makes hidden caches / lazily filled tables / static scratch buffers detectable; a race that needs a specific window and is invisible to TSan would be missed. Claim: no race on any executed access pair in the generated workloads, results deterministic.',
    level_note='This is the property this technique is weakest at (DESIGN section 4, C18). Trusted: ThreadSanitizer; librapidcheck/libgmp are not TSan-instrumented but are used on the main thread only.',
    assumptions=['ThreadSanitizer detects the races it instruments (compiler-inserted loads/stores; not inline asm, not accesses in uninstrumented libraries)'],
)

def _examples_target():
    import os
    repo = os.environ.get('VERIF_REPO', '/repo')
    exd = os.path.join(repo, 'examples')
    so = dict(name='examples_dbg',
              srcs=['harness/examples_shim.cpp'] + [os.path.join(exd, f) for f in ('diffusion.cpp', 'spline-potential.cpp', 'harmonic-oscillator.cpp', 'hydrogen.cpp')],
              flags=['-std=c++17', '-g', '-O1', '-fsanitize=address,undefined', '-fno-sanitize-recover=undefined', '-D_GLIBCXX_DEBUG',
                     '-DBSPLINE_INTERPOLATION_USE_EIGEN', '-DBSPLINE_ADD_TEST_CHECKS', '-I' + exd])
    return T('h_examples', so=so, deps=['harness/examples_shim.cpp'])
PROPS['C20'] = dict(
    units=[dict(target=_examples_target(), quick=dict(scale=1.0, timeout=3000), thorough=dict(scale=6.0, shards=8, timeout=14000))],
    rule=('the example sources are compiled FROM /repo/examples with -D_GLIBCXX_DEBUG + ASan + UBSan + BSPLINE_ADD_TEST_CHECKS behind a C-ABI shim. Diffusion: grids of 2..12 points (uniform, random, strongly non-uniform), whole-grid coefficient splines with positive piecewise-constant values in [1/8, 8] '
          '(15% constant), boundary values in [-10,10], scale factors 2^k, arbitrary positive rationals and (25%) extreme factors 2^-160..2^160; strict sub-window coefficient splines are generated too and must be rejected cleanly with the library exception. Oracle: no sanitizer / checked-STL report; u(front)=start, u(back)=end within 1e-9*max(1,|start|,|end|); '
          'u unchanged (1e-7 relative) when D is scaled; straight line for constant D (1e-7). Spline potential: grids of 21..41 jittered points (the entry point returns ten states), potentials a x^2 + b sin(w x) + d, constants c in [-1000,1000] added before interpolation or as a constant spline; 45% of the potentials are restricted to a strict sub-window of the grid (zero outside: step, well, barrier - the entry point takes any PSpline); '
          'all ten eigenvalues shift by c within 1e-7*(1+|c|+|lambda|). Harmonic oscillator and hydrogen: once per run, n+1/2 (1e-12) and -1/n^2 (5e-12), the suite\'s own tolerances. Observed maxima in metrics_max. Non-trivial: >= 3 nodes or start != end (diffusion, and every clean rejection); c != 0 (potential).'),
    technique='rapidcheck generation of example inputs; oracle = metamorphic relations of the solvers + sanitizer / checked-STL reports on the example sources themselves',
    level_text='Generated-input search over the four example entry points with the example code itself instrumented; tolerances are calibrated multiples of the observed worst case (>= 10^3 head-room), not derived. Sampling, not proof.',
    level_note='Admissible inputs as in DESIGN 6.7. Tolerances calibrated on the repaired tree (metrics_max reports the observed maxima on every run).',
    assumptions=[SAN, 'Eigen 3 as installed is trusted'],
)

for _p in ('C01', 'C02', 'C03', 'C04', 'C05', 'C06', 'C07', 'C09', 'C12', 'C19'):
    PROPS[_p]['rule'] = PROPS[_p]['rule'] + ET_RULE
