// History interpreter shared by the rapidcheck front end (T = Q, h_hist.cpp)
// and the libFuzzer front end (T = double, fuzz_history.cpp).
//
// A history is a vector of Op (opcode + four small integers) executed over a
// pool of grids, supports and splines of orders 0..3. Operands are addressed
// as `index mod pool size`; an op whose pool is still empty is a no-op, so
// every subsequence of a history is again a well-formed history.
//
// After EVERY step, depending on the focus:
//   C10  class invariants of every live object through public accessors;
//        moved-from objects are empty on the same grid; follow-up use of a
//        moved-from object obeys the arithmetic model.
//   C14  snapshots (grid points, window, coefficients, evaluations) of every
//        object that is not the step's declared target are unchanged; a copy
//        equals its source; a throwing in-place call leaves its target
//        unchanged; `a += b` equals `a + b`.
//   C09  no foreign exception from a call whose preconditions hold, checked
//        accessors throw exactly for indices outside the view (sanitizers
//        judge the rest).
#ifndef VERIF_HIST_H
#define VERIF_HIST_H
#include <bspline/Core.h>
#include <bspline/interpolation/interpolation.h>

#include <cstdint>
#include <cstring>
#include <limits>
#include <memory>
#include <stdexcept>
#include <optional>
#include <sstream>
#include <string>
#include <tuple>
#include <vector>

namespace hist {
using bspline::Spline;
using bspline::exceptions::BSplineException;
using bspline::support::Grid;
using bspline::support::Support;
namespace ops = bspline::operators;

struct Op {
  int code = 0, a = 0, b = 0, c = 0, d = 0;
};
enum Focus { F_C09 = 1, F_C10 = 2, F_C14 = 4, F_ALL = 7, F_C02 = 8, F_C15 = 16, F_C08 = 32 };

enum Code {
  G_NEW, G_NEW_INVALID, G_COPY, G_ASSIGN, G_EQUAL_DISTINCT, G_ACCESS,
  S_NEW, S_NEW_INVALID, S_EMPTY, S_WHOLE, S_COPY, S_MOVE, S_ASSIGN, S_MOVE_ASSIGN, S_SELF_ASSIGN, S_UNION, S_INTERSECT, S_ACCESS, S_CONVERT,
  P_NEW, P_NEW_BADCOUNT, P_EMPTY, P_COPY, P_MOVE, P_ASSIGN, P_MOVE_ASSIGN, P_SELF_ASSIGN, P_SELF_MOVE_ASSIGN, P_CROSS_ASSIGN,
  P_SCALE, P_DIV, P_NEG, P_ISCALE, P_IDIV, P_ADD, P_SUB, P_MUL, P_IADD, P_ISUB, P_LINCOMB, P_LINCOMB_BAD,
  P_APPLY, P_APPLY_SPLINEOP, P_LINFORM, P_BILFORM, P_EVAL, P_PRED, P_FRONTBACK, P_MOVE_REUSE, P_EVAL_MUTATE, P_INTERPOLATE, P_REGRID, P_SWAP, S_SELF_MOVE,
  CODE_COUNT
};
inline const char *code_name(int c) {
  static const char *n[] = {"G_NEW", "G_NEW_INVALID", "G_COPY", "G_ASSIGN", "G_EQUAL_DISTINCT", "G_ACCESS",
                            "S_NEW", "S_NEW_INVALID", "S_EMPTY", "S_WHOLE", "S_COPY", "S_MOVE", "S_ASSIGN", "S_MOVE_ASSIGN", "S_SELF_ASSIGN", "S_UNION", "S_INTERSECT", "S_ACCESS", "S_CONVERT",
                            "P_NEW", "P_NEW_BADCOUNT", "P_EMPTY", "P_COPY", "P_MOVE", "P_ASSIGN", "P_MOVE_ASSIGN", "P_SELF_ASSIGN", "P_SELF_MOVE_ASSIGN", "P_CROSS_ASSIGN",
                            "P_SCALE", "P_DIV", "P_NEG", "P_ISCALE", "P_IDIV", "P_ADD", "P_SUB", "P_MUL", "P_IADD", "P_ISUB", "P_LINCOMB", "P_LINCOMB_BAD",
                            "P_APPLY", "P_APPLY_SPLINEOP", "P_LINFORM", "P_BILFORM", "P_EVAL", "P_PRED", "P_FRONTBACK", "P_MOVE_REUSE", "P_EVAL_MUTATE", "P_INTERPOLATE", "P_REGRID", "P_SWAP", "S_SELF_MOVE"};
  return c >= 0 && c < CODE_COUNT ? n[c] : "?";
}

template <class T>
struct Traits;  // make(num, den), same(a, b)

// generic dense solver for the interpolation opcode (Gaussian elimination; works for the exact scalar and for floats)
struct SingularSystem : std::runtime_error {
  SingularSystem() : std::runtime_error("singular") {}
};
template <class T>
class GaussSolver final : public bspline::interpolation::internal::ISolver<T> {
  size_t n_;
  std::vector<T> M_, b_, x_;
  static T mag(const T &v) { return v < static_cast<T>(0) ? -v : v; }

 public:
  explicit GaussSolver(size_t n) : n_(n), M_(n * n, static_cast<T>(0)), b_(n, static_cast<T>(0)), x_(n, static_cast<T>(0)) {}
  T &M(size_t i, size_t j) override { return M_.at(i * n_ + j); }
  T &b(size_t i) override { return b_.at(i); }
  T &x(size_t i) override { return x_.at(i); }
  void solve() override {
    std::vector<T> A = M_, r = b_;
    for (size_t c = 0; c < n_; c++) {
      size_t piv = c;
      for (size_t k = c + 1; k < n_; k++) if (mag(A[k * n_ + c]) > mag(A[piv * n_ + c])) piv = k;
      if (!(mag(A[piv * n_ + c]) > static_cast<T>(0))) throw SingularSystem();
      if (piv != c) { for (size_t k = 0; k < n_; k++) std::swap(A[piv * n_ + k], A[c * n_ + k]); std::swap(r[piv], r[c]); }
      for (size_t k = c + 1; k < n_; k++) {
        if (A[k * n_ + c] == static_cast<T>(0)) continue;
        T f = A[k * n_ + c] / A[c * n_ + c];
        for (size_t q = c; q < n_; q++) A[k * n_ + q] -= f * A[c * n_ + q];
        r[k] -= f * r[c];
      }
    }
    for (size_t c = n_; c-- > 0;) {
      T v = r[c];
      for (size_t q = c + 1; q < n_; q++) v -= A[c * n_ + q] * x_[q];
      x_[c] = v / A[c * n_ + c];
    }
  }
};

template <class T>
struct Snap {
  std::vector<size_t> idx;
  std::vector<size_t> ident;  // identity of the data block (meaningful for before / after snapshots of ONE object and for copies)
  std::vector<T> vals;
  // identical observable state: windows, storage identity, every value bit for bit
  bool same(const Snap &o) const {
    if (idx != o.idx || ident != o.ident || vals.size() != o.vals.size()) return false;
    for (size_t i = 0; i < vals.size(); i++)
      if (!Traits<T>::same(vals[i], o.vals[i])) return false;
    return true;
  }
  // the same VALUE held by two unrelated objects: they may live on logically equal grids in distinct objects (other
  // storage, a zero grid point of the other sign), so storage identity and bit patterns are not compared
  bool same_value(const Snap &o) const {
    if (idx != o.idx || vals.size() != o.vals.size()) return false;
    for (size_t i = 0; i < vals.size(); i++)
      if (!Traits<T>::same(vals[i], o.vals[i]) && !(vals[i] == o.vals[i])) return false;
    return true;
  }
};

constexpr size_t MAXO = 3;
constexpr size_t CAP = 6;

template <size_t MAX, class F>
void with_ord(size_t o, F &&f) {
  if (o == MAX) f(std::integral_constant<size_t, MAX>{});
  else if constexpr (MAX > 0) with_ord<MAX - 1>(o, std::forward<F>(f));
}

template <class T>
class Interp {
 public:
  int focus = F_ALL;
  bool failed = false;
  std::string why;
  // classification flags (non-trivial rules of C09 / C10 / C14)
  bool nt_c09 = false, nt_c10 = false, nt_c14 = false, nt_c08 = false;
  size_t steps_done = 0, throws_seen = 0, moves_seen = 0;
  std::vector<int> executed;  // opcodes that actually ran (pool non-empty)

  std::vector<Grid<T>> grids;
  std::vector<Support<T>> sups;
  std::tuple<std::vector<Spline<T, 0>>, std::vector<Spline<T, 1>>, std::vector<Spline<T, 2>>, std::vector<Spline<T, 3>>> spl;

  void fail(const std::string &prop, const std::string &msg) {
    if (!failed) {
      failed = true;
      why = "[" + prop + "] step " + std::to_string(steps_done) + ": " + msg;
    }
  }

 private:
  using Id = std::pair<int, size_t>;  // kind (0 grid, 1 support, 2+o spline), index
  std::vector<Id> targets_;
  std::vector<Id> involved_;  // objects touched by a move or a failing call (C10 non-trivial rule)
  std::vector<std::vector<int>> family_ = std::vector<std::vector<int>>(2 + MAXO + 1);  // family id per object (C14 rule)
  int next_family_ = 1;
  size_t slot_counter_ = 0;

  static T mk(int n, int d = 1) { return Traits<T>::make(n, d); }

  template <size_t o>
  std::vector<Spline<T, o>> &vec() { return std::get<o>(spl); }

  static std::vector<T> grid_points(const Grid<T> &g) {
    std::vector<T> v;
    for (size_t i = 0; i < g.size(); i++) v.push_back(g[i]);
    return v;
  }
  static bool classify_share(const Support<T> &x, const Support<T> &y) {
    if (!x.containsIntervals() || !y.containsIntervals()) return false;
    size_t lo = std::max(x.getStartIndex(), y.getStartIndex()), hi = std::min(x.getEndIndex(), y.getEndIndex());
    return hi > lo && hi - lo >= 2;
  }
  static bool same_points(const Grid<T> &a, const Grid<T> &b) {
    if (a.size() != b.size()) return false;
    for (size_t i = 0; i < a.size(); i++)
      if (!(a[i] == b[i])) return false;
    return true;
  }
  Snap<T> snap(const Grid<T> &g) const {
    Snap<T> s;
    // which data block a grid holds is observable (getData()) and earlier references / iterators point into it: an
    // operation on OTHER objects must not re-seat it
    s.idx = {g.size()};
    s.ident = {(size_t)reinterpret_cast<uintptr_t>(g.getData().get())};
    s.vals = grid_points(g);
    auto d = g.getData();
    for (const auto &x : *d) s.vals.push_back(x);
    return s;
  }
  Snap<T> snap(const Support<T> &x) const {
    Snap<T> s;
    s.idx = {x.getStartIndex(), x.getEndIndex(), x.size()};
    s.ident = {(size_t)reinterpret_cast<uintptr_t>(x.getGrid().getData().get())};
    s.vals = grid_points(x.getGrid());
    // the view through the support's OWN accessors (they may be served from state cached inside the object)
    for (size_t i = 0; i < x.size(); i++) s.vals.push_back(x[i]);
    for (const auto &v : x) s.vals.push_back(v);
    if (!x.empty()) { s.vals.push_back(x.front()); s.vals.push_back(x.back()); s.vals.push_back(x.at(x.size() - 1)); }
    return s;
  }
  template <size_t o>
  Snap<T> snap(const Spline<T, o> &p) const {
    Snap<T> s = snap(p.getSupport());
    s.idx.push_back(p.getCoefficients().size());
    for (const auto &arr : p.getCoefficients())
      for (const auto &c : arr) s.vals.push_back(c);
    if (p.getSupport().containsIntervals()) {
      // evaluations are observable state too. Every probe is taken from a FRESH COPY of the object, so that the
      // probing itself cannot perturb the object and the value reflects whatever hidden state the object carried
      // when the snapshot was taken (e.g. a search hint updated by an earlier const evaluation).
      const auto &sup = p.getSupport();
      const size_t np = sup.size();
      for (size_t k = 0; k < np && k < 6; k++) {
        { Spline<T, o> cp(p); s.vals.push_back(cp(sup[k])); }
        if (k + 1 < np && k < 2) { Spline<T, o> cp(p); s.vals.push_back(cp((sup[k] + sup[k + 1]) / mk(2))); }
      }
      { Spline<T, o> cp(p); s.vals.push_back(cp(sup.back())); }
    }
    return s;
  }
  std::vector<std::pair<Id, Snap<T>>> snapshot_all() {
    std::vector<std::pair<Id, Snap<T>>> all;
    for (size_t i = 0; i < grids.size(); i++) all.push_back({{0, i}, snap(grids[i])});
    for (size_t i = 0; i < sups.size(); i++) all.push_back({{1, i}, snap(sups[i])});
    with_all([&](auto O, auto &v) {
      for (size_t i = 0; i < v.size(); i++) all.push_back({{2 + (int)decltype(O)::value, i}, snap(v[i])});
    });
    return all;
  }
  template <class F>
  void with_all(F &&f) {
    f(std::integral_constant<size_t, 0>{}, vec<0>());
    f(std::integral_constant<size_t, 1>{}, vec<1>());
    f(std::integral_constant<size_t, 2>{}, vec<2>());
    f(std::integral_constant<size_t, 3>{}, vec<3>());
  }

  // ---- invariants (C10), via public accessors only
  static std::string inv(const Grid<T> &g) {
    if (g.size() < 2) return "grid with fewer than two points";
    for (size_t i = 0; i + 1 < g.size(); i++)
      if (!(g[i] < g[i + 1])) return "grid points not strictly increasing";
    return "";
  }
  static std::string inv(const Support<T> &s) {
    std::string r = inv(s.getGrid());
    if (!r.empty()) return r;
    size_t a = s.getStartIndex(), b = s.getEndIndex();
    if (!((a == 0 && b == 0) || (a < b && b <= s.getGrid().size()))) return "support window [" + std::to_string(a) + "," + std::to_string(b) + ") is neither empty nor inside its grid of " + std::to_string(s.getGrid().size());
    for (size_t i = 0; i < s.size() && a + i < s.getGrid().size(); i++)
      if (!(s[i] == s.getGrid()[a + i]) && (s[i] == s[i])) return "support element " + std::to_string(i) + " is not the grid point " + std::to_string(a + i) + " of its own grid";
    if (!s.empty() && b <= s.getGrid().size() && ((!(s.front() == s.getGrid()[a]) && s.front() == s.front()) || (!(s.back() == s.getGrid()[b - 1]) && s.back() == s.back()))) return "support front()/back() are not the end points of its window on its own grid";
    if (s.size() != b - a || s.empty() != (a == b) || s.numberOfIntervals() != (b - a >= 2 ? b - a - 1 : 0) || s.containsIntervals() != (b - a >= 2)) return "support size/empty/interval count inconsistent with its window";
    return "";
  }
  template <size_t o>
  static std::string inv(const Spline<T, o> &p) {
    std::string r = inv(p.getSupport());
    if (!r.empty()) return r;
    if (p.getCoefficients().size() != p.getSupport().numberOfIntervals())
      return "spline holds " + std::to_string(p.getCoefficients().size()) + " coefficient arrays for " + std::to_string(p.getSupport().numberOfIntervals()) + " intervals";
    return "";
  }
  void check_invariants() {
    if (!(focus & F_C10)) return;
    for (size_t i = 0; i < grids.size(); i++) { auto r = inv(grids[i]); if (!r.empty()) fail("C10", "grid #" + std::to_string(i) + ": " + r); }
    for (size_t i = 0; i < sups.size(); i++) { auto r = inv(sups[i]); if (!r.empty()) fail("C10", "support #" + std::to_string(i) + ": " + r); }
    with_all([&](auto O, auto &v) {
      for (size_t i = 0; i < v.size(); i++) { auto r = inv(v[i]); if (!r.empty()) fail("C10", "spline<" + std::to_string(decltype(O)::value) + "> #" + std::to_string(i) + ": " + r); }
    });
  }

  // ---- C02 in histories: whatever sequence of operations produced a spline, evaluation returns the value of the
  // polynomial it stores. Every probe is taken from a fresh copy, so the probe reflects the hidden state (caches,
  // hints) the object carries from earlier direct evaluations without disturbing it. Exact scalar types only.
  template <size_t o>
  void check_eval_of(const Spline<T, o> &p, const std::string &who) {
    const auto &sup = p.getSupport();
    if (!sup.containsIntervals()) {
      Spline<T, o> cp(p);
      if (!(cp(mk(0)) == mk(0))) fail("C02", who + ": interval-free spline evaluates to a non-zero value");
      return;
    }
    const auto &co = p.getCoefficients();
    auto piece = [&](size_t k, const T &x) {
      T xm = (sup[k] + sup[k + 1]) / mk(2), dx = x - xm, pw = mk(1), sum = mk(0);
      for (size_t j = 0; j <= o; j++) { sum += co[k][j] * pw; pw *= dx; }
      return sum;
    };
    const size_t ni = sup.numberOfIntervals();
    for (size_t k = 0; k < ni && k < 6; k++) {
      { Spline<T, o> cp(p); T x = (sup[k] + sup[k + 1]) / mk(2) + (sup[k + 1] - sup[k]) / mk(4);
        if (!(cp(x) == piece(k, x))) { fail("C02", who + ": value inside interval " + std::to_string(k) + " is not the value of the stored polynomial"); return; } }
      { Spline<T, o> cp(p); T x = sup[k]; T v = cp(x);
        if (!(v == piece(k, x)) && !(k > 0 && v == piece(k - 1, x))) { fail("C02", who + ": value at grid point " + std::to_string(k) + " of the support is not the value of an adjacent stored piece"); return; } }
    }
    { Spline<T, o> cp(p); T x = sup.back(); if (!(cp(x) == piece(ni - 1, x))) fail("C02", who + ": value at the right end of the support is not the value of the last piece"); }
    { Spline<T, o> cp(p); if (!(cp(sup.front() - mk(1)) == mk(0)) || !(cp(sup.back() + mk(1, 3)) == mk(0))) fail("C02", who + ": non-zero value outside the closed support"); }
  }
  // ---- C15 in histories: the predicates tell the truth about the object as it is NOW, whatever was asked before
  template <size_t o>
  void check_pred_of(const Spline<T, o> &p, const std::string &who) {
    bool zero = true;
    for (const auto &arr : p.getCoefficients()) for (const auto &c : arr) if (!(c == mk(0))) zero = false;
    if (!p.getSupport().containsIntervals()) zero = true;
    if (p.isZero() != zero) { fail("C15", who + ": isZero() = " + (zero ? "false" : "true") + " but the stored function is " + (zero ? "zero" : "non-zero")); return; }
    { Spline<T, o> cp(p); if (cp.isZero() != zero) { fail("C15", who + ": a copy answers isZero() wrongly"); return; } }
    if (!(p == p) || (p != p)) { fail("C15", who + ": == is not reflexive"); return; }
    { Spline<T, o> cp(p); if (!(cp == p) || !(p == cp) || (cp != p)) { fail("C15", who + ": a copy does not compare equal"); return; } }
    if (p.checkOverlap(p) != p.getSupport().containsIntervals()) fail("C15", who + ": checkOverlap with itself wrong");
  }
  void check_predicates() {
    if (!(focus & F_C15) || !Traits<T>::exact_arith) return;  // NaN coefficients (possible with built-in floats) are outside C15
    with_all([&](auto O, auto &v) {
      for (size_t i = 0; i < v.size() && !failed; i++) check_pred_of(v[i], "spline<" + std::to_string(decltype(O)::value) + "> #" + std::to_string(i));
    });
  }
  void check_evaluations() {
    if (!(focus & F_C02)) return;
    if constexpr (Traits<T>::exact_arith) {
      with_all([&](auto O, auto &v) {
        for (size_t i = 0; i < v.size() && !failed; i++) check_eval_of(v[i], "spline<" + std::to_string(decltype(O)::value) + "> #" + std::to_string(i));
      });
    }
  }

  // ---- pool bookkeeping
  void target(int kind, size_t i) { targets_.push_back({kind, i}); }
  bool is_target(const Id &id) const {
    for (const auto &t : targets_) if (t == id) return true;
    return false;
  }
  void involve(int kind, size_t i) { involved_.push_back({kind, i}); }
  void touch(int kind, size_t i) {
    for (const auto &x : involved_) if (x == Id{kind, i}) nt_c10 = true;
  }
  int fam(int kind, size_t i) { auto &f = family_[(size_t)kind]; return i < f.size() ? f[i] : 0; }
  void set_fam(int kind, size_t i, int fm) { auto &f = family_[(size_t)kind]; if (f.size() <= i) f.resize(i + 1, 0); f[i] = fm; }
  size_t fam_count(int fm) {
    size_t n = 0;
    for (size_t k = 0; k < family_.size(); k++) for (size_t i = 0; i < family_[k].size(); i++) if (family_[k][i] == fm && live(k, i)) n++;
    return n;
  }
  bool live(size_t kind, size_t i) {
    if (kind == 0) return i < grids.size();
    if (kind == 1) return i < sups.size();
    bool r = false;
    with_ord<MAXO>(kind - 2, [&](auto O) { r = i < vec<decltype(O)::value>().size(); });
    return r;
  }
  void inplace_mark(int kind, size_t i) {
    int f = fam(kind, i);
    if (f && fam_count(f) >= 2) nt_c14 = true;
  }
  template <class V, class X>
  size_t store(V &v, X &&x, int kind, int family) {
    size_t pos;
    if (v.size() < CAP) {
      v.push_back(std::forward<X>(x));
      pos = v.size() - 1;
    } else {
      pos = slot_counter_++ % CAP;
      target(kind, pos);
      v[pos] = std::forward<X>(x);
    }
    set_fam(kind, pos, family ? family : next_family_++);
    return pos;
  }
  template <size_t o>
  size_t store_spline(Spline<T, o> p, int family = 0) {
    if constexpr (o <= MAXO) {
      return store(vec<o>(), std::move(p), 2 + (int)o, family);
    } else {
      if (focus & F_C10) { auto r = inv(p); if (!r.empty()) fail("C10", "result spline of order " + std::to_string(o) + ": " + r); }
      return 0;
    }
  }
  std::vector<T> gen_points(int n, int variant, int off) {
    std::vector<T> v;
    int x = off % 17 - 8;
    for (int i = 0; i < n; i++) {
      v.push_back(mk(x, variant % 3 == 0 ? 1 : variant % 3 == 1 ? 2 : 4));
      x += 1 + ((i * 7 + variant) % 3) * ((variant % 5 == 4) ? 9 : 1);
    }
    return v;
  }
  template <size_t o>
  std::vector<std::array<T, o + 1>> gen_coeffs(size_t count, int seed) {
    std::vector<std::array<T, o + 1>> co(count);
    int s = seed;
    for (auto &a : co)
      for (auto &c : a) {
        s = (s * 73 + 41) % 251;
        c = (seed % 11 == 0) ? mk(0) : mk(s % 25 - 12, 1 + (seed % 3));
      }
    return co;
  }

 public:
  // expects: call `f` whose documented preconditions hold -> no exception at all; returns false if it threw
  template <class F>
  bool valid_call(const char *what, F &&f) {
    try {
      f();
      return true;
    } catch (const BSplineException &e) {
      fail("C09", std::string(what) + " with valid arguments threw " + e.what());
    } catch (const std::exception &e) {
      fail("C09", std::string(what) + " with valid arguments threw foreign exception " + e.what());
    }
    return false;
  }
  // expects: `f` throws BSplineException iff must_throw. A BSplineException on valid arguments is always reported;
  // a missing throw is asserted only by the focus that owns the expectation (accessors: C09; differing grids and
  // invalid constructions belong to C08 / C11 and are not asserted here).
  template <class F>
  bool call(const char *what, bool must_throw, F &&f, int owner = 0) {
    bool threw = false, code_ok = true;
    try {
      f();
    } catch (const BSplineException &e) {
      threw = true;
      code_ok = e.getErrorCode() == bspline::exceptions::ErrorCode::DIFFERING_GRIDS;
      if (!must_throw) fail("C09", std::string(what) + " threw although its arguments are valid: " + e.what());
    } catch (const std::exception &e) {
      fail("C09", std::string(what) + " threw foreign exception " + e.what());
      return false;
    }
    if (threw) throws_seen++;
    if (owner == F_C08) {
      // C08 in histories: whatever the objects went through before (operations with equal grids in distinct objects,
      // re-seating by assignment or move), arguments on logically different grids are refused with the differing-grids code
      if (must_throw) nt_c08 = true;
      if (must_throw && !threw && (focus & F_C08)) fail("C08", std::string(what) + " on logically different grids did not throw");
      if (must_throw && threw && !code_ok && (focus & F_C08)) fail("C08", std::string(what) + " on logically different grids threw a library exception without the differing-grids code");
    } else if (must_throw && !threw && (focus & owner)) fail("C09", std::string(what) + " did not throw for an index outside the view");
    return !threw && !must_throw;
  }
  // no expectation about throwing (guard may or may not be reachable); only foreign exceptions are reported
  template <class F>
  void free_call(const char *what, F &&f) {
    try {
      f();
    } catch (const BSplineException &) {
      throws_seen++;
    } catch (const std::exception &e) {
      fail("C09", std::string(what) + " threw foreign exception " + e.what());
    }
  }

  void step(const Op &op) {
    if (failed) return;
    targets_.clear();
    auto before = (focus & F_C14) ? snapshot_all() : std::vector<std::pair<Id, Snap<T>>>();
    bool ran = dispatch(op);
    if (ran) executed.push_back(op.code);
    steps_done++;
    if (failed) return;
    check_invariants();
    check_evaluations();
    check_predicates();
    if (failed) return;
    if (focus & F_C14) {
      auto after = snapshot_all();
      for (const auto &b : before) {
        if (is_target(b.first)) continue;
        for (const auto &a : after)
          if (a.first == b.first && !a.second.same(b.second)) {
            fail("C14", std::string(code_name(op.code)) + " changed the observable state of non-target object kind " + std::to_string(b.first.first) + " #" + std::to_string(b.first.second));
            return;
          }
      }
    }
  }

 private:
  bool dispatch(const Op &op) {
    const size_t ng = grids.size(), ns = sups.size();
    auto gi = [&](int a) { return (size_t)(unsigned)a % ng; };
    auto si = [&](int a) { return (size_t)(unsigned)a % ns; };
    switch (op.code) {
      // ------------------------------------------------------------ grids
      case G_NEW: {
        int n = 2 + (unsigned)op.a % 8;
        auto pts = gen_points(n, op.b, op.c);
        std::optional<Grid<T>> g;
        bool ok = false;
        switch ((unsigned)op.d % 4) {
          case 0: ok = valid_call("Grid(vector)", [&] { g.emplace(pts); }); break;
          case 1: ok = valid_call("Grid(begin,end)", [&] { g.emplace(pts.begin(), pts.end()); }); break;
          case 2: ok = valid_call("Grid(shared_ptr)", [&] { g.emplace(std::make_shared<const std::vector<T>>(pts)); }); break;
          default: ok = valid_call("Grid(initializer_list)", [&] { g.emplace(std::initializer_list<T>{pts[0], pts[1]}); }); break;
        }
        if (ok) store(grids, *g, 0, 0);
        return true;
      }
      case G_NEW_INVALID: {
        auto pts = gen_points(2 + (unsigned)op.a % 6, op.b, op.c);
        switch ((unsigned)op.d % 6) {
          case 0: pts.resize((unsigned)op.a % 2); break;                          // 0 or 1 points
          case 1: std::swap(pts[0], pts[1]); break;                               // unordered
          case 2: pts[1] = pts[0]; break;                                         // duplicate
          case 3: std::swap(pts.front(), pts.back()); break;
          default:                                                                // NaN at a generated position (built-in floats)
            if constexpr (std::numeric_limits<T>::has_quiet_NaN) pts[(unsigned)op.c % pts.size()] = std::numeric_limits<T>::quiet_NaN();
            else pts[1] = pts[0];
            break;
        }
        // if the invalid points are ACCEPTED the object joins the pool, so that the invariant oracle sees a live grid
        // whose points are not strictly increasing (the missing refusal itself is C11's business)
        call("Grid(invalid points)", true, [&] { Grid<T> g(pts); store(grids, g, 0, 0); });
        call("Grid(null shared_ptr)", true, [&] { Grid<T> g(std::shared_ptr<const std::vector<T>>{}); (void)g; });
        return true;
      }
      case G_COPY: {
        if (!ng) return false;
        Grid<T> c(grids[gi(op.a)]);
        if ((focus & F_C14) && !snap(c).same(snap(grids[gi(op.a)]))) fail("C14", "copy of a grid differs from the original");
        store(grids, c, 0, fam(0, gi(op.a)));
        return true;
      }
      case G_ASSIGN: {
        if (!ng) return false;
        size_t a = gi(op.a), b = gi(op.b);
        target(0, a);
        grids[a] = grids[b];
        if ((focus & F_C14) && !snap(grids[a]).same(snap(grids[b]))) fail("C14", "assigned grid differs from its source");
        return true;
      }
      case G_EQUAL_DISTINCT: {
        if (!ng) return false;
        std::vector<T> same_pts = grid_points(grids[gi(op.a)]);
        // logically equal, not identical: with built-in floats a zero grid point gets the other sign
        if constexpr (std::numeric_limits<T>::is_iec559) for (auto &v : same_pts) if (v == static_cast<T>(0)) v = -v;
        Grid<T> c(same_pts);
        if (!(c == grids[gi(op.a)]) || (c != grids[gi(op.a)])) fail("C09", "equal grid in a distinct object compares unequal");
        store(grids, c, 0, 0);
        return true;
      }
      case G_ACCESS: {
        if (!ng) return false;
        const Grid<T> &g = grids[gi(op.a)];
        size_t i = index_value(op.b, op.c, g.size());
        bool inside = i < g.size();
        call("Grid::at", !inside, [&] { const T &x = g.at(i); if (!(x == g[i])) fail("C09", "Grid::at returned a wrong element"); }, F_C09);
        valid_call("Grid::front/back", [&] { if (!(g.front() == g[0]) || !(g.back() == g[g.size() - 1])) fail("C09", "Grid front/back wrong"); });
        (void)g.empty(); (void)g.begin(); (void)g.end();
        call("Grid::findElement", false, [&] { if (g.findElement(g[i % g.size()]) != i % g.size()) fail("C09", "findElement wrong"); });
        return true;
      }
      // ---------------------------------------------------------- supports
      case S_NEW: {
        if (!ng) return false;
        const Grid<T> &g = grids[gi(op.a)];
        size_t n = g.size(), s = (unsigned)op.b % n, e = s + 1 + (unsigned)op.c % (n - s);
        std::optional<Support<T>> x;
        if (valid_call("Support(grid,s,e)", [&] { x.emplace(g, s, e); })) store(sups, std::move(*x), 1, 0);
        return true;
      }
      case S_NEW_INVALID: {
        if (!ng) return false;
        const Grid<T> &g = grids[gi(op.a)];
        size_t n = g.size(), s, e;
        switch ((unsigned)op.d % 4) {
          case 0: s = 1 + (unsigned)op.b % n; e = s; break;                 // s == e != 0
          case 1: s = (unsigned)op.b % n; e = n + 1 + (unsigned)op.c % 3; break;  // beyond the grid
          case 2: s = 1 + (unsigned)op.b % n; e = (unsigned)op.c % s; break;     // reversed
          default: s = (unsigned)op.b % n; e = ~size_t(0) - (unsigned)op.c % 3; break;
        }
        call("Support(invalid window)", true, [&] { Support<T> x(g, s, e); (void)x; });
        return true;
      }
      case S_EMPTY: if (!ng) return false; store(sups, Support<T>::createEmpty(grids[gi(op.a)]), 1, 0); return true;
      case S_WHOLE: if (!ng) return false; store(sups, Support<T>::createWholeGrid(grids[gi(op.a)]), 1, 0); return true;
      case S_COPY: {
        if (!ns) return false;
        Support<T> c(sups[si(op.a)]);
        if ((focus & F_C14) && !(c == sups[si(op.a)] && snap(c).same(snap(sups[si(op.a)])))) fail("C14", "copy of a support differs from the original");
        store(sups, std::move(c), 1, fam(1, si(op.a)));
        return true;
      }
      case S_MOVE: {
        if (!ns) return false;
        size_t a = si(op.a);
        auto old = snap(sups[a]);
        Grid<T> g = sups[a].getGrid();
        target(1, a);
        Support<T> m(std::move(sups[a]));
        moves_seen++; involve(1, a);
        if (focus & F_C10) {
          if (!sups[a].empty() || sups[a].getStartIndex() != 0 || sups[a].getEndIndex() != 0) fail("C10", "moved-from support is not empty");
          if (!same_points(sups[a].getGrid(), g)) fail("C10", "moved-from support changed its grid");
        }
        if ((focus & F_C14) && !snap(m).same(old)) fail("C14", "moved-to support differs from the source's former state");
        store(sups, std::move(m), 1, 0);
        return true;
      }
      case S_ASSIGN: case S_MOVE_ASSIGN: case S_SELF_ASSIGN: {
        if (!ns) return false;
        size_t a = si(op.a), b = op.code == S_SELF_ASSIGN ? a : si(op.b);
        auto src = snap(sups[b]);
        target(1, a);
        touch(1, a); touch(1, b);
        if (op.code == S_MOVE_ASSIGN && a != b) {
          target(1, b);
          Grid<T> g = sups[b].getGrid();
          sups[a] = std::move(sups[b]);
          moves_seen++; involve(1, b);
          if ((focus & F_C10) && (!sups[b].empty() || !same_points(sups[b].getGrid(), g))) fail("C10", "moved-from support (move assignment) is not empty on the same grid");
        } else {
          auto &ref = sups[b];
          sups[a] = ref;  // includes self copy assignment
        }
        if ((focus & F_C14) && !snap(sups[a]).same(src)) fail("C14", "assigned support differs from its source");
        return true;
      }
      case S_UNION: case S_INTERSECT: {
        if (!ns) return false;
        size_t a = si(op.a), b = si(op.b);
        touch(1, a); touch(1, b);
        bool differ = !same_points(sups[a].getGrid(), sups[b].getGrid());
        std::optional<Support<T>> r;
        if (call(op.code == S_UNION ? "calcUnion" : "calcIntersection", differ, [&] { r.emplace(op.code == S_UNION ? sups[a].calcUnion(sups[b]) : sups[a].calcIntersection(sups[b])); }, F_C08))
          store(sups, std::move(*r), 1, 0);
        else if (differ) { involve(1, a); involve(1, b); }
        return true;
      }
      case S_ACCESS: {
        if (!ns) return false;
        const Support<T> &s = sups[si(op.a)];
        size_t i = index_value(op.b, op.c, s.size());
        if (i > (size_t(1) << 32)) nt_c09 = true;
        bool inside = i < s.size();
        call("Support::at", !inside, [&] { const T &x = s.at(i); if (!(x == s.getGrid()[s.getStartIndex() + i])) fail("C09", "Support::at returned an element outside the view"); }, F_C09);
        call("Support::absoluteFromRelative", !inside, [&] { if (s.absoluteFromRelative(i) != s.getStartIndex() + i) fail("C09", "absoluteFromRelative wrong"); }, F_C09);
        call("Support::front", s.empty(), [&] { (void)s.front(); }, F_C09);
        call("Support::back", s.empty(), [&] { (void)s.back(); }, F_C09);
        if (inside) (void)s[i];
        for (const auto &x : s) (void)x;
        return true;
      }
      case S_CONVERT: {
        if (!ns) return false;
        const Support<T> &s = sups[si(op.a)];
        size_t i = index_value(op.b, op.c, s.getGrid().size());
        bool in_pt = !s.empty() && i >= s.getStartIndex() && i < s.getEndIndex();
        bool in_iv = in_pt && i + 1 < s.getEndIndex();
        valid_call("relativeFromAbsolute", [&] {
          auto r = s.relativeFromAbsolute(i);
          auto q = s.intervalIndexFromAbsolute(i);
          if ((focus & F_C09) && (r.has_value() != in_pt || q.has_value() != in_iv)) fail("C09", "index conversion reports containment wrongly for index " + std::to_string(i));
        });
        return true;
      }
      case S_SELF_MOVE: {
        if (!ns) return false;
        size_t a = si(op.a);
        target(1, a);
        auto &ref = sups[a];
        sups[a] = std::move(ref);  // only the class invariants are required afterwards (DESIGN 6.3)
        moves_seen++; involve(1, a);
        return true;
      }
      default: break;
    }
    return dispatch_spline(op);
  }

  // index classes for checked accessors: small, just outside, around 2^32, 2^63, SIZE_MAX
  static size_t index_value(int b, int c, size_t size) {
    size_t k = (unsigned)c % (size + 3);
    switch ((unsigned)b % 8) {
      case 0: case 1: case 2: return k;
      case 3: return ~size_t(0) - k;
      case 4: return (~size_t(0)) / 2 + k;
      case 5: return (size_t(1) << 32) + k;
      case 6: return (size_t(1) << 63) - k;
      default: return (size_t(1) << 32) - 1 - k;
    }
  }

  size_t total_splines() {
    size_t n = 0;
    with_all([&](auto, auto &v) { n += v.size(); });
    return n;
  }
  // choose an order that has at least one spline, starting from the wanted one
  std::optional<size_t> pick_order(int want, size_t max = MAXO) {
    for (size_t k = 0; k <= max; k++) {
      size_t o = ((unsigned)want + k) % (max + 1);
      bool has = false;
      with_ord<MAXO>(o, [&](auto O) { has = !vec<decltype(O)::value>().empty(); });
      if (has) return o;
    }
    return std::nullopt;
  }

  bool dispatch_spline(const Op &op) {
    const size_t ng = grids.size(), ns = sups.size();
    auto si = [&](int a) { return (size_t)(unsigned)a % ns; };
    switch (op.code) {
      case P_NEW: case P_NEW_BADCOUNT: {
        if (!ns) return false;
        const Support<T> &s = sups[si(op.b)];
        with_ord<MAXO>((unsigned)op.a % (MAXO + 1), [&](auto O) {
          constexpr size_t o = decltype(O)::value;
          size_t cnt = s.numberOfIntervals();
          if (op.code == P_NEW) {
            std::optional<Spline<T, o>> p;
            auto co = gen_coeffs<o>(cnt, op.c);
            if (valid_call("Spline(support, coefficients)", [&] { p.emplace(s, co); })) store_spline(std::move(*p));
          } else {
            size_t bad = (op.d & 1) ? cnt + 1 + (unsigned)op.c % 2 : (cnt > 0 ? cnt - 1 : 1);
            auto co = gen_coeffs<o>(bad, op.c);
            call("Spline(support, wrong coefficient count)", true, [&] { Spline<T, o> p(s, co); (void)p; });
          }
        });
        return true;
      }
      case P_EMPTY: {
        if (!ng) return false;
        with_ord<MAXO>((unsigned)op.a % (MAXO + 1), [&](auto O) { store_spline(Spline<T, decltype(O)::value>(grids[(unsigned)op.b % ng])); });
        return true;
      }
      case P_INTERPOLATE: {
        if (!ns) return false;
        interpolate_op(op);
        return true;
      }
      case P_COPY: case P_MOVE: case P_ASSIGN: case P_MOVE_ASSIGN: case P_SELF_ASSIGN: case P_SELF_MOVE_ASSIGN: case P_SWAP:
      case P_SCALE: case P_DIV: case P_NEG: case P_ISCALE: case P_IDIV: case P_EVAL: case P_FRONTBACK: case P_LINFORM: case P_APPLY: {
        auto oo = pick_order(op.a);
        if (!oo) return false;
        with_ord<MAXO>(*oo, [&](auto O) { unary<decltype(O)::value>(op); });
        return true;
      }
      case P_CROSS_ASSIGN: case P_ADD: case P_SUB: case P_MUL: case P_IADD: case P_ISUB: case P_BILFORM: case P_PRED: case P_APPLY_SPLINEOP: case P_MOVE_REUSE: case P_EVAL_MUTATE: case P_REGRID: {
        auto oa = pick_order(op.a), ob = pick_order(op.b);
        if (!oa || !ob) return false;
        with_ord<MAXO>(*oa, [&](auto A) { with_ord<MAXO>(*ob, [&](auto B) { binary<decltype(A)::value, decltype(B)::value>(op); }); });
        return true;
      }
      case P_LINCOMB: case P_LINCOMB_BAD: {
        auto oo = pick_order(op.a);
        if (!oo) return false;
        with_ord<MAXO>(*oo, [&](auto O) { lincomb<decltype(O)::value>(op); });
        return true;
      }
      default: return false;
    }
  }

  // interpolation through the generic routine with a user solver; the abscissae are a NAMED pool support (an lvalue):
  // it is an operand and must not change
  void interpolate_op(const Op &op) {
    if (op.code != P_INTERPOLATE) { fail("HARNESS", std::string("opcode ") + code_name(op.code) + " was routed to the interpolation handler"); return; }
    size_t idx = (size_t)(unsigned)op.b % sups.size();
    touch(1, idx);
    const size_t np = sups[idx].size();
    std::vector<T> y;
    for (size_t i = 0; i < np; i++) y.push_back(mk((int)((i * 5 + (unsigned)op.c) % 11) - 5, 1 + (unsigned)op.d % 3));
    with_ord<2>((unsigned)op.a % 3, [&](auto O) {
      constexpr size_t order = decltype(O)::value + 1;
      bool ok = call("interpolate", np < 2, [&] {
        try {
          auto s = bspline::interpolation::interpolate<T, order, GaussSolver<T>>(sups[idx], y);
          if ((focus & F_C10) && !(s.getSupport() == sups[idx])) fail("C10", "interpolation result does not live on the given window");
          store_spline(std::move(s));
        } catch (const SingularSystem &) {
        }
      });
      if (!ok && np < 2) involve(1, idx);
    });
  }
  // C09: an interval of a sum that belongs to neither operand holds exact zeros; anything else is uninitialised or stale storage
  template <size_t oR>
  void check_gap_zero(const Spline<T, oR> &r, const Support<T> &sa, const Support<T> &sb, const char *what) {
    if (!(focus & F_C09)) return;
    const auto &sr = r.getSupport();
    for (size_t i = 0; i < r.getCoefficients().size(); i++) {
      size_t j = sr.getStartIndex() + i;
      bool in_a = sa.containsIntervals() && j >= sa.getStartIndex() && j + 1 < sa.getEndIndex();
      bool in_b = sb.containsIntervals() && j >= sb.getStartIndex() && j + 1 < sb.getEndIndex();
      if (in_a || in_b) continue;
      for (const auto &c : r.getCoefficients()[i])
        if (!(c == mk(0))) { fail("C09", std::string(what) + ": the result holds a non-zero coefficient on grid interval " + std::to_string(j) + ", which belongs to neither operand (uninitialised or stale storage)"); return; }
    }
  }

  template <size_t o>
  void unary(const Op &op) {
    auto &v = vec<o>();
    const int kind = 2 + (int)o;
    size_t a = (unsigned)op.c % v.size();
    touch(kind, a);
    T c = mk(((unsigned)op.d % 9) + 1, 1 + (unsigned)op.b % 3);
    if (op.d & 16) c = mk(-3, 2);
    const bool zero_scalar = ((unsigned)op.d % 64) == 63;  // multiplication by zero is a valid call (division never gets it)
    switch (op.code) {
      case P_COPY: {
        Spline<T, o> cp(v[a]);
        // (operator== is not used as an oracle with built-in floats: histories may produce NaN coefficients, outside C15)
        if ((focus & F_C14) && !((!Traits<T>::exact_arith || cp == v[a]) && snap(cp).same(snap(v[a])))) fail("C14", "copy of a spline differs from the original");
        store_spline(std::move(cp), fam(kind, a));
        break;
      }
      case P_MOVE: {
        auto old = snap(v[a]);
        Grid<T> g = v[a].getSupport().getGrid();
        target(kind, a);
        Spline<T, o> m(std::move(v[a]));
        moves_seen++; involve(kind, a);
        if (focus & F_C10) {
          if (!v[a].getSupport().empty() || !v[a].getCoefficients().empty()) fail("C10", "moved-from spline is not an interval-free object");
          if (!same_points(v[a].getSupport().getGrid(), g)) fail("C10", "moved-from spline changed its grid");
          if (!v[a].isZero()) fail("C10", "moved-from spline is not zero");
        }
        if ((focus & F_C14) && !snap(m).same(old)) fail("C14", "moved-to spline differs from the source's former state");
        store_spline(std::move(m));
        break;
      }
      case P_ASSIGN: case P_MOVE_ASSIGN: case P_SELF_ASSIGN: case P_SELF_MOVE_ASSIGN: {
        size_t b = (op.code == P_SELF_ASSIGN || op.code == P_SELF_MOVE_ASSIGN) ? a : (unsigned)op.b % v.size();
        touch(kind, b);
        auto src = snap(v[b]);
        target(kind, a);
        inplace_mark(kind, a);
        if (op.code == P_MOVE_ASSIGN && a != b) {
          target(kind, b);
          Grid<T> g = v[b].getSupport().getGrid();
          v[a] = std::move(v[b]);
          moves_seen++; involve(kind, b);
          if ((focus & F_C10) && (!v[b].getSupport().empty() || !v[b].getCoefficients().empty() || !same_points(v[b].getSupport().getGrid(), g))) fail("C10", "moved-from spline (move assignment) is not interval-free on the same grid");
          if ((focus & F_C14) && !snap(v[a]).same(src)) fail("C14", "move-assigned spline differs from the source's former state");
        } else if (op.code == P_SELF_MOVE_ASSIGN) {
          auto &ref = v[a];
          v[a] = std::move(ref);  // only the class invariants are required afterwards (DESIGN 6.3)
          moves_seen++; involve(kind, a);
        } else {
          auto &ref = v[b];
          v[a] = ref;
          if ((focus & F_C14) && !snap(v[a]).same(src)) fail("C14", "assigned spline differs from its source (self-assignment must preserve the value)");
          set_fam(kind, a, fam(kind, b));
        }
        break;
      }
      case P_SWAP: {
        // std::swap = move construction + two move assignments: each object ends up with the other's former state
        size_t b = (unsigned)op.b % v.size();
        touch(kind, b);
        auto sa0 = snap(v[a]), sb0 = snap(v[b]);
        target(kind, a); target(kind, b);
        std::swap(v[a], v[b]);
        moves_seen++;
        if ((focus & (F_C14 | F_C10)) && a != b && (!snap(v[a]).same(sb0) || !snap(v[b]).same(sa0))) fail(focus & F_C14 ? "C14" : "C10", "after std::swap the two splines do not hold each other's former state");
        int fa_ = fam(kind, a), fb_ = fam(kind, b); set_fam(kind, a, fb_); set_fam(kind, b, fa_);
        break;
      }
      case P_SCALE: { T cc = zero_scalar ? mk(0) : c; store_spline((op.d & 32) ? cc * v[a] : v[a] * cc, fam(kind, a)); break; }
      case P_DIV: store_spline(v[a] / c, fam(kind, a)); break;
      case P_NEG: store_spline(-v[a], fam(kind, a)); break;
      case P_ISCALE: target(kind, a); inplace_mark(kind, a); v[a] *= (zero_scalar ? mk(0) : c); break;
      case P_IDIV: target(kind, a); inplace_mark(kind, a); v[a] /= c; break;
      case P_EVAL: {
        const auto &p = v[a];
        T x = mk(op.b % 40 - 20, 1 + (unsigned)op.d % 4);
        valid_call("evaluation", [&] {
          (void)p(x);
          if (p.getSupport().containsIntervals()) {
            const auto &sup = p.getSupport();
            if (op.d & 8) { (void)p(p.front()); (void)p(p.back()); }
            size_t k = (unsigned)op.b % sup.numberOfIntervals();  // last evaluation: strictly inside interval k
            (void)p((sup[k] + sup[k + 1]) / mk(2));
          }
        });
        break;
      }
      case P_FRONTBACK: {
        const auto &p = v[a];
        bool e = p.getSupport().empty();
        call("Spline::front", e, [&] { (void)p.front(); }, F_C09);
        call("Spline::back", e, [&] { (void)p.back(); }, F_C09);
        if (e) involve(kind, a);
        (void)p.isZero();
        break;
      }
      case P_LINFORM: {
        const auto &p = v[a];
        valid_call("LinearForm", [&] {
          switch ((unsigned)op.b % 4) {
            case 0: (void)bspline::integration::LinearForm{}(p); break;
            case 1: (void)bspline::integration::LinearForm{ops::X<2>{}}(p); break;
            case 2: (void)bspline::integration::LinearForm{ops::Dx<1>{} * ops::X<1>{} - mk(2) * ops::IdentityOperator{}}.evaluate(p); break;
            default: (void)bspline::integration::LinearForm{ops::X<1>{} / 2 + 3}(p); break;
          }
        });
        break;
      }
      case P_APPLY: {
        const auto &p = v[a];
        valid_call("operator application", [&] {
          switch ((unsigned)op.b % 7) {
            case 0: store_spline(ops::Dx<1>{} * p, fam(kind, a)); break;
            case 1: store_spline(ops::X<1>{} * p, fam(kind, a)); break;
            case 2: store_spline(ops::Dx<2>{} * p, fam(kind, a)); break;
            case 3: store_spline(ops::IdentityOperator{} * p, fam(kind, a)); break;
            case 4: store_spline((ops::Dx<1>{} * ops::X<1>{} - ops::X<1>{} * ops::Dx<1>{}) * p, fam(kind, a)); break;
            case 5: store_spline((mk(3) * ops::X<1>{} - 2 + ops::Dx<1>{}) * p, fam(kind, a)); break;
            default: store_spline((-ops::IdentityOperator{} / 2) * p, fam(kind, a)); break;
          }
        });
        break;
      }
      default: fail("HARNESS", std::string("opcode ") + code_name(op.code) + " reached the unary handler, which does not implement it"); break;
    }
  }

  template <size_t oa, size_t ob>
  void binary(const Op &op) {
    auto &va = vec<oa>();
    auto &vb = vec<ob>();
    const int ka = 2 + (int)oa, kb = 2 + (int)ob;
    size_t a = (unsigned)op.c % va.size(), b = (unsigned)op.d % vb.size();
    touch(ka, a); touch(kb, b);
    const bool differ = !same_points(va[a].getSupport().getGrid(), vb[b].getSupport().getGrid());
    const auto &sa = va[a].getSupport();
    const auto &sb = vb[b].getSupport();
    // partial overlap / factor ending inside the operand (C09 non-trivial rule)
    bool partial = !differ && sa.containsIntervals() && sb.containsIntervals() && sb.getEndIndex() < sa.getEndIndex() && sb.getEndIndex() > sa.getStartIndex() + 1;
    auto failing = [&]() { involve(ka, a); involve(kb, b); };
    switch (op.code) {
      case P_CROSS_ASSIGN:
        if constexpr (ob < oa) {
          target(ka, a); inplace_mark(ka, a);
          if (oa != ob && partial) nt_c09 = true;
          valid_call("cross-order assignment", [&] { va[a] = vb[b]; });
          if ((focus & F_C10) && va[a].getSupport() != vb[b].getSupport()) fail("C10", "cross-order assignment did not take over the window");
          set_fam(ka, a, fam(kb, b));
        }
        break;
      case P_ADD: case P_SUB: case P_MUL: {
        if (oa != ob && partial) nt_c09 = true;
        bool ok = call(op.code == P_ADD ? "a+b" : op.code == P_SUB ? "a-b" : "a*b", differ, [&] {
          if (op.code == P_ADD) { auto r = va[a] + vb[b]; check_gap_zero(r, sa, sb, "a+b"); store_spline(std::move(r), fam(ka, a)); }
          else if (op.code == P_SUB) { auto r = va[a] - vb[b]; check_gap_zero(r, sa, sb, "a-b"); store_spline(std::move(r), fam(ka, a)); }
          else store_spline(va[a] * vb[b], fam(ka, a));
        }, F_C08);
        if (!ok && differ) failing();
        break;
      }
      case P_IADD: case P_ISUB:
        if constexpr (ob <= oa) {
          if (oa != ob && partial) nt_c09 = true;
          target(ka, a); inplace_mark(ka, a);
          auto tsnap = snap(va[a]);
          std::optional<Spline<T, oa>> expect;
          if (!differ && (focus & F_C14)) expect.emplace(op.code == P_IADD ? va[a] + vb[b] : va[a] - vb[b]);
          const Support<T> sa_before = sa, sb_before = sb;
          bool ok = call(op.code == P_IADD ? "a+=b" : "a-=b", differ, [&] {
            if (op.code == P_IADD) va[a] += vb[b]; else va[a] -= vb[b];
          }, F_C08);
          if (ok) check_gap_zero(va[a], sa_before, sb_before, op.code == P_IADD ? "a+=b" : "a-=b");
          if (!ok && differ) {
            failing(); nt_c14 = true;
            if ((focus & F_C14) && !snap(va[a]).same(tsnap)) fail("C14", "in-place operation threw but changed its target");
          }
          if (ok && expect && !snap(va[a]).same_value(snap(*expect))) fail("C14", "a op= b differs from a op b");
        }
        break;
      case P_BILFORM: {
        bool ok = call("BilinearForm", differ, [&] {
          switch ((unsigned)op.a % 4) {
            case 0: (void)bspline::integration::ScalarProduct{}(va[a], vb[b]); break;
            case 1: (void)bspline::integration::BilinearForm{ops::X<1>{}, ops::Dx<1>{}}.evaluate(va[a], vb[b]); break;
            case 2: (void)bspline::integration::BilinearForm{ops::Dx<2>{} + ops::X<2>{}}(va[a], vb[b]); break;
            default: (void)bspline::integration::BilinearForm{ops::Dx<1>{}, mk(-1, 2) * (ops::X<1>{} * ops::Dx<1>{})}(va[a], vb[b]); break;
          }
        }, F_C08);
        if (!ok && differ) failing();
        break;
      }
      case P_PRED:
        if (!differ) valid_call("checkOverlap", [&] { (void)va[a].checkOverlap(vb[b]); (void)vb[b].checkOverlap(va[a]); });
        if constexpr (oa == ob) valid_call("operator==", [&] { bool e = va[a] == vb[b]; if ((va[a] != vb[b]) == e) fail("C09", "!= is not the negation of =="); });
        break;
      case P_APPLY_SPLINEOP: {
        // factor vb[b] (orders 0..1 to keep result orders small), operand va[a]
        if constexpr (ob <= 1) {
          if (partial) nt_c09 = true;
          const unsigned variant = (unsigned)op.a % 6;
          bool must = differ && sa.containsIntervals() && variant != 3;
          bool ok = call("SplineOperator application", must, [&] {
            switch (variant) {
              case 0: store_spline(ops::SplineOperator{vb[b]} * va[a], fam(ka, a)); break;
              case 1: store_spline((ops::SplineOperator{vb[b]} * ops::Dx<0>{} + ops::Dx<1>{}) * va[a], fam(ka, a)); break;
              case 2: (void)bspline::integration::LinearForm{ops::X<1>{} * ops::SplineOperator{vb[b]}}(va[a]); break;
              case 4: {
                // operator objects are values: a COPY made from a named operator (and forms / compounds built from the
                // copy) stays usable after the operator it was copied from has been destroyed
                auto src = std::make_unique<ops::SplineOperator<T, ob>>(vb[b]);
                ops::SplineOperator<T, ob> cp(*src);
                bspline::integration::LinearForm<ops::SplineOperator<T, ob>> lf(cp);
                bspline::integration::BilinearForm<ops::SplineOperator<T, ob>, ops::SplineOperator<T, ob>> bf(*src, cp);
                auto compound = ops::Dx<0>{} * ops::SplineOperator<T, ob>(cp) + ops::SplineOperator<T, ob>(*src);
                src.reset();
                store_spline(cp * va[a], fam(ka, a));
                (void)lf(va[a]); (void)bf(va[a], va[a]); (void)(compound * va[a]);
                break;
              }
              case 5: {
                // copy ASSIGNMENT over an operator that held another factor, then the source dies / is overwritten
                ops::SplineOperator<T, ob> other(vb[(b + 1) % vb.size()]);
                auto src = std::make_unique<ops::SplineOperator<T, ob>>(vb[b]);
                other = *src;
                *src = ops::SplineOperator<T, ob>(Spline<T, ob>(sb.getGrid()));  // source now holds an interval-free factor
                ops::SplineOperator<T, ob> moved(std::move(*src));
                src.reset();
                auto r1 = other * va[a];
                auto r0 = ops::SplineOperator{vb[b]} * va[a];
                if ((focus & (F_C09 | F_C14)) && !snap(r1).same_value(snap(r0))) fail(focus & F_C09 ? "C09" : "C14", "a copy-assigned SplineOperator does not act as the factor it was assigned from");
                store_spline(std::move(r1), fam(ka, a));
                (void)(moved * va[a]);
                break;
              }
              default: break;  // handled below
            }
          }, F_C08);
          if (variant == 3) {
            // bilinear form with a spline factor: the grid guard is reached only on intervals common to both operands
            size_t a2 = (a + 1) % va.size();
            touch(ka, a2);
            const auto &p2 = va[a2];
            bool d2 = !same_points(p2.getSupport().getGrid(), sa.getGrid());
            bool share = false;
            if (!d2) share = classify_share(sa, p2.getSupport());
            auto form = [&] { (void)bspline::integration::BilinearForm{ops::SplineOperator{vb[b]}, ops::Dx<0>{}}(va[a], p2); };
            if (d2) call("BilinearForm{SplineOperator} operands on different grids", true, form, F_C08);
            else if (share) call("BilinearForm{SplineOperator}", differ, form, F_C08);
            else if (!differ) call("BilinearForm{SplineOperator} without common interval", false, form);
            else free_call("BilinearForm{SplineOperator} guard unreachable", form);
          }
          if (!ok && must) failing();
        }
        break;
      }
      case P_EVAL_MUTATE: {
        // evaluate the object directly (strictly inside interval k), then change it through one of the mutating paths:
        // whatever evaluation remembers must not survive the change (the per-step oracles probe it afterwards)
        if constexpr (ob <= oa) {
          if (sa.containsIntervals()) {
            size_t k = (unsigned)op.a % sa.numberOfIntervals();
            valid_call("evaluation", [&] { (void)va[a]((sa[k] + sa[k + 1]) / mk(2)); });
          }
          valid_call("predicates", [&] { (void)va[a].isZero(); (void)(va[a] == va[a]); if (!differ) (void)va[a].checkOverlap(vb[b]); });
          if (differ) break;
          target(ka, a); inplace_mark(ka, a);
          valid_call("mutation after evaluation", [&] {
            switch (((unsigned)op.b >> 2) % 8) {
              case 5: va[a] *= mk(0); break;
              case 6: va[a] = va[a] * mk(0); break;
              case 7: va[a] = -va[a]; va[a] /= mk(2); break;
              case 0: va[a] = vb[b]; break;  // cross-order (ob < oa) or same-order copy assignment
              case 1: va[a] += vb[b]; break;
              case 2: va[a] *= mk(3, 2); break;
              case 3: { Spline<T, oa> tmp(vb[b].getSupport().getGrid()); tmp = vb[b]; va[a] = std::move(tmp); break; }
              default: { Spline<T, oa> tmp(sa.getGrid()); va[a] = tmp; va[a] -= vb[b]; break; }
            }
          });
          if (sb.containsIntervals() && ((unsigned)op.b & 1)) {
            const auto &ns = va[a].getSupport();
            if (ns.containsIntervals()) { size_t k = (unsigned)op.a % ns.numberOfIntervals(); valid_call("evaluation", [&] { (void)va[a]((ns[k] + ns[k + 1]) / mk(2)); }); }
          }
        }
        break;
      }
      case P_REGRID: {
        // "a remembered answer about grids survives a re-seat": (1) a working copy x of va[a] is combined successfully,
        // in both operand positions, with a partner q that lives on an EQUAL grid held in a DISTINCT object; (2) x is
        // re-seated onto the grid of vb[b] through one of the assignment / move paths; (3) x op q and q op x are
        // refused iff the two grids now differ logically. Support-level variant included.
        if constexpr (ob <= oa) {
          Grid<T> g2(grid_points(sa.getGrid()));
          std::optional<Spline<T, oa>> qo;
          if (!valid_call("spline on an equal grid in a distinct object", [&] {
                Support<T> s2 = sa.empty() ? Support<T>::createEmpty(g2) : Support<T>(g2, sa.getStartIndex(), sa.getEndIndex());
                qo.emplace(std::move(s2), va[a].getCoefficients());
              })) break;
          Spline<T, oa> &q = *qo;
          Spline<T, oa> x(va[a]);
          Support<T> sx = x.getSupport(), sq = q.getSupport();
          const unsigned kind_op = (unsigned)op.a % 7;
          auto combine = [&](Spline<T, oa> &l, Spline<T, oa> &r, bool inplace_allowed) {
            switch (kind_op) {
              case 0: (void)(l + r); break;
              case 1: (void)(l - r); break;
              case 2: (void)(l * r); break;
              case 3: if (inplace_allowed) l += r; else (void)(l + r); break;
              case 4: if (inplace_allowed) l -= r; else (void)(l - r); break;
              case 5: (void)bspline::integration::ScalarProduct{}(l, r); (void)bspline::integration::BilinearForm{ops::X<1>{}, ops::Dx<1>{}}(l, r); break;
              default: { std::vector<Spline<T, oa>> sp{l, r, l}; std::vector<T> cf{mk(1), mk(-2), mk(1, 2)}; (void)bspline::linearCombination(cf, sp); (void)l.checkOverlap(r); break; }
            }
          };
          // long-lived operator / form objects with a spline factor living on the partner's grid: whatever they remember
          // about operands they have already seen must not outlive a re-seat of the operand object either
          Spline<T, oa> factor(q);
          const ops::SplineOperator<T, oa> sop{factor};
          const bspline::integration::LinearForm<ops::SplineOperator<T, oa>> lform{sop};
          const bspline::integration::BilinearForm<ops::SplineOperator<T, oa>, ops::IdentityOperator> bform{sop, ops::IdentityOperator{}};
          auto apply_factor = [&](unsigned which) {
            switch (which % 3) {
              case 0: { auto r = sop * x; if (focus & F_C10) { auto iv = inv(r); if (!iv.empty()) fail("C10", "result of a spline-factor operator: " + iv); } break; }
              case 1: (void)lform(x); break;
              default: (void)bform(x, x); break;
            }
          };
          // (1) equal grids in distinct objects are the same grid
          call("x op q with an equal grid in a distinct object", false, [&] { combine(x, q, true); combine(q, x, true); (void)sx.calcUnion(sq); (void)sq.calcIntersection(sx); (void)sx.hasSameGrid(sq); (void)sq.hasSameGrid(sx); }, F_C08);
          call("long-lived spline-factor operator applied to an operand on an equal grid", false, [&] { apply_factor((unsigned)op.a / 7); apply_factor((unsigned)op.a / 7 + 1); }, F_C08);
          // (2) re-seat x (and the support sx) onto the grid of vb[b]
          const auto &gb = sb.getGrid();
          valid_call("re-seating assignment", [&] {
            switch (((unsigned)op.b >> 1) % 6) {
              case 0: x = vb[b]; sx = sb; break;                                                    // copy / cross-order assignment
              case 1: { Spline<T, oa> tmp(gb); tmp = vb[b]; x = std::move(tmp); Support<T> ts(sb); sx = std::move(ts); break; }  // move assignment
              case 2: x = Spline<T, oa>(gb); sx = Support<T>::createEmpty(gb); break;                  // temporary, interval-free
              case 3: { Spline<T, oa> tmp(gb); tmp = vb[b]; Spline<T, oa> y(std::move(tmp)); x = std::move(y); sx = Support<T>::createWholeGrid(gb); break; }
              case 4: { Spline<T, oa> tmp(gb); tmp = vb[b]; std::swap(x, tmp); Support<T> ts(sb); std::swap(sx, ts); break; }
              default: break;                                                                       // control: no re-seat
            }
          });
          const bool d = !same_points(x.getSupport().getGrid(), g2);
          // (3)
          auto xs = snap(x), qs = snap(q);
          call("x op q after x was re-seated onto another grid", d, [&] { combine(x, q, true); }, F_C08);
          if (d && (focus & (F_C08 | F_C14)) && (!snap(x).same(xs) || !snap(q).same(qs))) fail(focus & F_C08 ? "C08" : "C14", "a refused operation changed its arguments");
          xs = snap(x); qs = snap(q);
          call("q op x after x was re-seated onto another grid", d, [&] { combine(q, x, true); }, F_C08);
          if (d && (focus & (F_C08 | F_C14)) && (!snap(x).same(xs) || !snap(q).same(qs))) fail(focus & F_C08 ? "C08" : "C14", "a refused operation changed its arguments");
          {
            const bool must = d && x.getSupport().containsIntervals();  // the guard is reached on the operand's intervals
            for (unsigned w = 0; w < 3; w++) {
              if (must || !d) call("long-lived spline-factor operator applied after its operand object was re-seated onto another grid", must, [&] { apply_factor((unsigned)op.a / 7 + w); }, F_C08);
              else free_call("spline-factor operator, guard unreachable", [&] { apply_factor((unsigned)op.a / 7 + w); });
            }
          }
          const bool ds = !same_points(sx.getGrid(), g2);
          call("support union after a re-seat", ds, [&] { (void)sx.calcUnion(sq); }, F_C08);
          call("support intersection after a re-seat", ds, [&] { (void)sq.calcIntersection(sx); }, F_C08);
          if ((focus & F_C08) && (sx.hasSameGrid(sq) == ds || sq.hasSameGrid(sx) == ds)) fail("C08", "hasSameGrid answers wrongly after a re-seat");
          if (d) failing();
          store_spline(std::move(x));
          store_spline(std::move(q));
          store(sups, std::move(sx), 1, 0);
        }
        break;
      }
      case P_MOVE_REUSE: {
        // move va[a] away, then use the moved-from object again: it must behave as the zero spline on the same grid
        if constexpr (ob <= oa) {
          target(ka, a); inplace_mark(ka, a);
          Spline<T, oa> taken(std::move(va[a]));
          moves_seen++; involve(ka, a); nt_c10 = true;
          if (focus & F_C10) {
            auto r = inv(va[a]);
            if (!r.empty()) fail("C10", "moved-from spline: " + r);
            if (differ) {
              call("moved-from + b (different grids)", true, [&] { (void)(va[a] + vb[b]); }, F_C08);
            } else {
              valid_call("re-use of a moved-from spline", [&] {
                auto s1 = va[a] + vb[b];  // must equal b as a function: same window and coefficients as b promoted
                Spline<T, oa> bb(vb[b].getSupport().getGrid());
                bb = vb[b];
                if (!snap(s1).same_value(snap(bb))) fail("C10", "moved-from spline + b is not b (moved-from object is not a zero spline)");
                auto p1 = va[a] * vb[b];
                if (!p1.isZero() || p1.getSupport().containsIntervals()) fail("C10", "moved-from spline * b is not interval-free");
                switch ((unsigned)op.a % 3) {
                  case 0: va[a] = bb; if (!snap(va[a]).same(snap(bb))) fail("C10", "assignment to a moved-from spline did not take"); break;
                  case 1: va[a] += vb[b]; if (!snap(va[a]).same_value(snap(bb))) fail("C10", "moved-from += b is not b"); break;
                  default: va[a] = std::move(taken); break;
                }
              });
            }
          } else if (!differ) {
            va[a] = std::move(taken);
          }
        }
        break;
      }
      default: fail("HARNESS", std::string("opcode ") + code_name(op.code) + " reached the binary handler, which does not implement it"); break;
    }
  }

  template <size_t o>
  void lincomb(const Op &op) {
    auto &v = vec<o>();
    const int kind = 2 + (int)o;
    size_t cnt = 1 + (unsigned)op.b % 4;
    std::vector<Spline<T, o>> sp;
    std::vector<T> cf;
    bool differ = false;
    for (size_t k = 0; k < cnt; k++) {
      size_t i = ((unsigned)op.c + k * (1 + (unsigned)op.d % 3)) % v.size();
      touch(kind, i);
      sp.push_back(v[i]);
      cf.push_back((((unsigned)op.d >> 3) & 1) && k == cnt - 1 ? mk(0) : mk((int)k * 2 - 3, 2));  // the last coefficient may vanish: the grid check must not depend on it
      if (!same_points(sp[0].getSupport().getGrid(), sp[k].getSupport().getGrid())) differ = true;
    }
    if (op.code == P_LINCOMB_BAD) {
      if (op.d & 1) cf.push_back(mk(1)); else { cf.clear(); sp.clear(); }
      call("linearCombination(count mismatch / empty)", true, [&] { (void)bspline::linearCombination(cf, sp); });
      return;
    }
    call("linearCombination", differ, [&] {
      if (op.d & 4) store_spline(bspline::linearCombination(cf.begin(), cf.end(), sp.begin(), sp.end()));
      else store_spline(bspline::linearCombination(cf, sp));
    }, F_C08);
  }
};
}  // namespace hist
#endif
