// C16 -- floating-point results stay at rounding level of the exact result.
// Each case is ONE library operation on exactly representable (dyadic)
// operands, executed with T = float / double / long double; the exact result
// comes from the reference model (ref.h + AST interpreter), not from the library. Error measure: per interval
//   E = sum_k |c_k^fl - c_k^exact| h^k   (scalars: |v^fl - v^exact|)
// bounded by 2^20 * eps_T * S with S the absolute-value shadow of the operation
// (same formula on |coefficients|, (|u|+|xm|)^n for X<n>, DESIGN 6.6).
#include <cstdio>

#include "common/cases.h"
#include "expr_common.h"
#include "common/shadow.h"

using namespace vc;
namespace bo = bspline::operators;
using bspline::integration::BilinearForm;
using bspline::integration::LinearForm;

struct FloatC {
  GridC g;
  SplineC a, b;
  i64 oa = 0, ob = 0, op = 0, n = 0, expr = 0, type = 2, cnum = 1, cden = 1, xnum = 0;
  template <class A>
  void io(A &x) {
    x("g", g); x("a", a); x("b", b); x("oa", oa); x("ob", ob); x("op", op); x("n", n); x("expr", expr); x("type", type); x("cnum", cnum); x("cden", cden); x("xnum", xnum);
  }
};
enum Op { O_ADD, O_SUB, O_MUL, O_SCALE, O_DIV, O_LINCOMB, O_DX, O_X, O_EVAL, O_LINFORM, O_BILFORM, O_EXPR, O_BILDIAG, O_COUNT };
static const char *op_name(int o) {
  static const char *n[] = {"a+b", "a-b", "a*b", "a*c", "a/c", "linearCombination", "Dx<n>", "X<n>", "evaluation", "LinearForm", "BilinearForm", "expression", "BilinearForm(s,s): one object, same-type operators of different state"};
  return o >= 0 && o < O_COUNT ? n[o] : "?";
}

// result of an operation in a scalar-independent form
struct Out {
  bool scalar = false;
  R value;
  size_t start = 0, end = 0;              // window of a spline result
  std::vector<std::vector<R>> coeffs;      // per interval, midpoint coefficients (exact conversion)
  std::vector<std::string> hex;            // hex-float transcript (floating types)
};
template <class T>
static std::string hexf(const T &v) {
  if constexpr (std::is_same_v<T, Q>) return vq::str(v);
  else { char b[64]; snprintf(b, sizeof b, "%La", (long double)v); return b; }
}
template <class T, size_t o>
static Out out_spline(const bspline::Spline<T, o> &s) {
  Out r;
  r.start = s.getSupport().getStartIndex(); r.end = s.getSupport().getEndIndex();
  for (const auto &arr : s.getCoefficients()) {
    std::vector<R> c;
    for (const auto &v : arr) { c.push_back(exact(v)); r.hex.push_back(hexf(v)); }
    r.coeffs.push_back(c);
  }
  return r;
}
template <class T>
static Out out_scalar(const T &v) {
  Out r; r.scalar = true; r.value = exact(v); r.hex.push_back(hexf(v));
  return r;
}

// ----- T-generic expressions with their AST (for the shadow)
constexpr int NEXPR = 13;
template <class T, int E, class F>
static auto make_expr(const F &f) {
  if constexpr (E == 0) { (void)f; return bo::IdentityOperator{}; }
  else if constexpr (E == 1) { (void)f; return bo::X<2>{}; }
  else if constexpr (E == 2) { (void)f; return bo::Dx<1>{}; }
  else if constexpr (E == 3) { (void)f; return mk<T>(1, 2) * (-bo::Dx<2>{} + bo::X<2>{}); }
  else if constexpr (E == 4) { (void)f; return bo::X<2>{} * bo::Dx<1>{} - 3 * bo::X<1>{}; }
  else if constexpr (E == 5) { (void)f; return bo::X<1>{} / 2 + 3; }
  else if constexpr (E == 6) { return bo::SplineOperator{f} * bo::Dx<1>{}; }
  else if constexpr (E == 8) { (void)f; return bo::X<1>{} / 3.0f + 0.75f; }            // scalar type narrower than the spline's
  else if constexpr (E == 9) { (void)f; return (2.5f * bo::Dx<1>{}) / 7; }               // int divisor, not a power of two
  else if constexpr (E == 10) { (void)f; return bo::X<1>{} - 3u; }                        // unsigned scalar subtracted from an operator
  else if constexpr (E == 11) { (void)f; return -(2u * bo::Dx<1>{}); }                     // unary minus on a node scaled by an unsigned scalar
  else if constexpr (E == 12) { (void)f; return static_cast<size_t>(3) - bo::X<2>{} / 4u; } // size_t minus operator, unsigned divisor
  else { (void)f; return bo::Dx<1>{} * bo::X<1>{} - bo::X<1>{} * bo::Dx<1>{}; }
}
static ex::NP expr_ast(int e) {
  using namespace ex;
  switch (e) {
    case 0: return I();
    case 1: return X(2);
    case 2: return D(1);
    case 3: return SCALE(rq(1, 2), ADD(NEG(D(2)), X(2)));
    case 4: return SUB(MUL(X(2), D(1)), SCALE(rq(3), X(1)));
    case 5: return ADDC(DIV(X(1), rq(2)), rq(3));
    case 6: return MUL(SOP(0), D(1));
    case 8: return ADDC(DIV(X(1), rq(3)), rq(3, 4));
    case 9: return DIV(SCALE(rq(5, 2), D(1)), rq(7));
    case 10: return SUBC(X(1), rq(3));
    case 11: return NEG(SCALE(rq(2), D(1)));
    case 12: return CSUB(rq(3), DIV(X(2), rq(4)));
    default: return SUB(MUL(D(1), X(1)), MUL(X(1), D(1)));
  }
}
static Sh sh_expr(const ex::NP &e, const Sh &s, const R &xmabs, const Sh &f) {
  using namespace ex;
  switch (e->k) {
    case N_I: return s;
    case N_X: return sh_x(s, e->n, xmabs);
    case N_D: return sh_dx(s, e->n);
    case N_SOP: return sh_mul(f, s);
    case N_MUL: return sh_expr(e->l, sh_expr(e->r, s, xmabs, f), xmabs, f);
    case N_ADD: case N_SUB: return sh_add(sh_expr(e->l, s, xmabs, f), sh_expr(e->r, s, xmabs, f));
    case N_SCALE: return sh_scale(sh_expr(e->l, s, xmabs, f), e->c);
    case N_DIV: return sh_scale(sh_expr(e->l, s, xmabs, f), 1 / e->c);
    case N_ADDC: case N_SUBC: case N_CSUB: return sh_add(sh_expr(e->l, s, xmabs, f), sh_scale(s, e->c));
    default: return sh_expr(e->l, s, xmabs, f);
  }
}
template <class T, size_t oa, size_t ob>
static Out run(const FloatC &c) {
  auto grid = make_grid<T>(c.g);
  auto a = make_spline<T, oa>(grid, c.a);
  auto b = make_spline<T, ob>(grid, c.b);
  T cs = mk<T>(c.cnum == 0 ? 1 : c.cnum, c.cden < 1 ? 1 : c.cden);
  switch (c.op) {
    case O_ADD: return out_spline(a + b);
    case O_SUB: return out_spline(a - b);
    case O_MUL: return out_spline(a * b);
    case O_SCALE: return out_spline((c.n & 1) ? cs * a : a * cs);
    case O_DIV: return out_spline(a / cs);
    case O_LINCOMB: {
      auto b2 = make_spline<T, oa>(grid, c.b);
      std::vector<bspline::Spline<T, oa>> sp{a, b2, a};
      std::vector<T> cf{cs, mk<T>(-3, 4), mk<T>(5, 8)};
      return out_spline(bspline::linearCombination(cf, sp));
    }
    case O_DX: { Out r; with_order<4>((size_t)c.n % 5, [&](auto N) { r = out_spline(bo::Dx<decltype(N)::value>{} * a); }); return r; }
    case O_X: { Out r; with_order<2>((size_t)c.n % 3, [&](auto N) { r = out_spline(bo::X<decltype(N)::value>{} * a); }); return r; }
    case O_EVAL: {
      // abscissa k/64 inside the grid range
      T x = mk<T>(c.xnum, 64);
      return out_scalar(a(x));
    }
    case O_BILDIAG:  // a diagonal matrix element: ONE spline object on both sides, two operators of one C++ type with different state
      return out_scalar(BilinearForm{(2.5f * bo::Dx<1>{}) / 7, (1.5f * bo::Dx<1>{}) / 3}(a, a));
    default: break;
  }
  auto f = make_spline<T, 1>(grid, c.b);
  Out r;
  with_order<NEXPR - 1>((size_t)c.expr % NEXPR, [&](auto E) {
    constexpr int e = (int)decltype(E)::value;
    if (c.op == O_LINFORM) r = out_scalar(LinearForm{make_expr<T, e>(f)}(a));
    else if (c.op == O_BILFORM) {
      if constexpr (ob <= 2) r = out_scalar(BilinearForm{make_expr<T, e>(f), make_expr<T, (e + 3) % NEXPR>(f)}(a, b));
    } else r = out_spline(make_expr<T, e>(f) * a);
  });
  return r;
}

static FILE *g_transcript = nullptr;

// exact result of the operation from the reference model (absolute-basis polynomial algebra, AST interpreter):
// shares no code with the library, so a change that is wrong in EVERY scalar type cannot hide in a differential
struct Exact {
  bool scalar = false;
  R value;                 // scalar results
  std::vector<R> values;   // evaluation: admissible values (either adjacent piece at a shared grid point)
  ref::Fn fn;              // spline results
};
template <size_t oa, size_t ob>
static Exact exact_result(const FloatC &c) {
  Exact e;
  ref::Fn fa = model_of(c.g, c.a, oa), fb = model_of(c.g, c.b, ob), ff = model_of(c.g, c.b, 1);
  i64 cn = c.cnum == 0 ? 1 : c.cnum;
  R cr(cn, c.cden < 1 ? 1 : c.cden); cr.canonicalize();
  ex::NP ast = expr_ast((int)(c.expr % NEXPR)), ast2 = expr_ast((int)((c.expr % NEXPR + 3) % NEXPR));
  if (c.op == O_BILDIAG) { using namespace ex; ast = DIV(SCALE(rq(5, 2), D(1)), rq(7)); ast2 = DIV(SCALE(rq(3, 2), D(1)), rq(3)); }
  switch (c.op) {
    case O_ADD: e.fn = ref::add(fa, fb); break;
    case O_SUB: e.fn = ref::sub(fa, fb); break;
    case O_MUL: e.fn = ref::mul(fa, fb); break;
    case O_SCALE: e.fn = ref::scale(fa, cr); break;
    case O_DIV: e.fn = ref::scale(fa, 1 / cr); break;
    case O_LINCOMB: e.fn = ref::add(ref::add(ref::scale(fa, cr), ref::scale(model_of(c.g, c.b, oa), R(-3, 4))), ref::scale(fa, R(5, 8))); break;
    case O_DX: e.fn = ref::deriv(fa, (size_t)c.n % 5); break;
    case O_X: e.fn = ref::mulx(fa, (size_t)c.n % 3); break;
    case O_EVAL: {
      e.scalar = true;
      R x(c.xnum, 64); x.canonicalize();
      bool inside = c.a.e - c.a.s >= 2 && x >= fa.grid[(size_t)c.a.s] && x <= fa.grid[(size_t)c.a.e - 1];
      if (!inside) e.values.push_back(R(0));
      else for (size_t j = (size_t)c.a.s; (i64)j + 1 < c.a.e; j++) if (fa.grid[j] <= x && x <= fa.grid[j + 1]) e.values.push_back(ref::eval(fa.piece[j], x));
      e.value = e.values.front();
      break;
    }
    case O_LINFORM: e.scalar = true; e.value = ref::integral(ex::interp(ast, fa, {ff})); break;
    case O_BILFORM: e.scalar = true; e.value = ref::integral(ref::mul(ex::interp(ast, fa, {ff}), ex::interp(ast2, fb, {ff}))); break;
    case O_BILDIAG: e.scalar = true; e.value = ref::integral(ref::mul(ex::interp(ast, fa, {ff}), ex::interp(ast2, fa, {ff}))); break;
    default: e.fn = ex::interp(ast, fa, {ff}); break;
  }
  return e;
}
// midpoint (Taylor) coefficients of an absolute-basis polynomial about xm
static std::vector<R> taylor(const ref::Poly &p, const R &xm, size_t count) {
  std::vector<R> out(count, R(0));
  ref::Poly d = ref::trimmed(p);
  R fact(1);
  for (size_t k = 0; k < count; k++) {
    if (k > 0) fact *= R((long)k);
    out[k] = ref::eval(d, xm) / fact;
    d = ref::deriv(d, 1);
  }
  return out;
}

template <class T, size_t oa, size_t ob>
static void float_T(const FloatC &c, vf::Obs &o) {
  Exact exr = exact_result<oa, ob>(c);
  Out fl = run<T, oa, ob>(c);
  // scalar-independent view of the exact result, on the window the floating-point run produced
  Out ex_;
  ex_.scalar = exr.scalar;
  ex_.value = exr.value;
  if (!exr.scalar) {
    ex_.start = fl.start; ex_.end = fl.end;
    std::vector<R> gp = c.g.points();
    for (size_t i = 0; i < fl.coeffs.size(); i++) {
      size_t j = fl.start + i;
      if (j + 1 >= gp.size()) { o.fail("result window exceeds the grid"); return; }
      ex_.coeffs.push_back(taylor(exr.fn.piece[j], (gp[j] + gp[j + 1]) / 2, fl.coeffs[i].size()));
      if (ref::trimmed(exr.fn.piece[j]).size() > fl.coeffs[i].size()) { o.fail("exact result has a higher degree than the returned array can hold"); return; }
    }
    for (size_t j = 0; j < exr.fn.nint(); j++)
      if (!(j >= fl.start && j + 1 < fl.end) && !ref::is_zero(exr.fn.piece[j])) { o.fail(std::string(op_name((int)c.op)) + ": result window misses grid interval " + std::to_string(j) + " where the exact result is non-zero"); return; }
  }
  if (g_transcript) {
    fprintf(g_transcript, "%s:", vf::to_text(c).c_str());
    for (auto &h : fl.hex) fprintf(g_transcript, " %s", h.c_str());
    fprintf(g_transcript, "\n");
  }
  std::vector<R> pts = c.g.points();
  R eps(1);
  for (int b = 0; b < std::numeric_limits<T>::digits - 1; b++) eps /= 2;
  const R BOUND = R(1 << 20) * eps;
  std::string label = std::string(op_name((int)c.op)) + "/" + Scalar<T>::name;
  o.cls("op:" + std::string(op_name((int)c.op)));
  o.cls(std::string("type:") + Scalar<T>::name);
  R maxabs = 0, mingap = 1000, maxgap = 0;
  for (size_t j = 0; j < pts.size(); j++) { if (absr(pts[j]) > maxabs) maxabs = absr(pts[j]); if (j) { R g = pts[j] - pts[j - 1]; if (g < mingap) mingap = g; if (g > maxgap) maxgap = g; } }
  bool far = maxabs >= 4, ratio8 = maxgap >= 8 * mingap;
  if (far && mingap <= R(1, 4)) o.cls("far-from-origin-small-gaps");
  o.nt(std::max(oa, ob) >= 2 && (far || ratio8 || c.op == O_SUB || (c.op == O_EXPR && c.expr % NEXPR >= 7)));

  auto judge = [&](const R &E, const R &S, const std::string &where) {
    if (S == 0) { VCHECK(o, E == 0, label << " " << where << ": non-zero error " << E.get_d() << " although every term involved is zero"); return; }
    R ratio = E / (eps * S);
    double lr = ratio == 0 ? -100.0 : std::log2(ratio.get_d());
    vf::metric_max("log2_max_error_in_eps_units:" + label, lr);
    VCHECK(o, E <= BOUND * S, label << " " << where << ": error " << ratio.get_d() << " eps relative to the sum of absolute terms exceeds 2^20");
  };
  // shadows per absolute interval of the operands
  auto coef = [&](const SplineC &s, size_t order, size_t absj) -> std::vector<R> {
    std::vector<R> v(order + 1, R(0));
    if ((i64)absj >= s.s && (i64)absj + 1 < s.e) for (size_t k = 0; k <= order; k++) v[k] = s.coeff(order, absj - (size_t)s.s, k);
    return v;
  };
  i64 cn = c.cnum == 0 ? 1 : c.cnum;
  R cr(cn, c.cden < 1 ? 1 : c.cden); cr.canonicalize();
  ex::NP ast = expr_ast((int)(c.expr % NEXPR)), ast2 = expr_ast((int)((c.expr % NEXPR + 3) % NEXPR));
  if (c.op == O_BILDIAG) { using namespace ex; ast = DIV(SCALE(rq(5, 2), D(1)), rq(7)); ast2 = DIV(SCALE(rq(3, 2), D(1)), rq(3)); }
  auto shadow_at = [&](size_t j) -> Sh {  // shadow coefficient array of a spline-valued result on absolute interval j
    Sh A = sh_abs(coef(c.a, oa, j)), B = sh_abs(coef(c.b, ob, j));
    R xm = absr((pts[j] + pts[j + 1]) / 2);
    switch (c.op) {
      case O_ADD: case O_SUB: return sh_add(A, B);
      case O_MUL: return sh_mul(A, B);
      case O_SCALE: return sh_scale(A, cr);
      case O_DIV: return sh_scale(A, 1 / cr);
      case O_LINCOMB: return sh_add(sh_add(sh_scale(A, cr), sh_scale(sh_abs(coef(c.b, oa, j)), R(3, 4))), sh_scale(A, R(5, 8)));
      case O_DX: return sh_dx(A, (size_t)c.n % 5);
      case O_X: return sh_x(A, (size_t)c.n % 3, xm);
      default: return sh_expr(ast, A, xm, sh_abs(coef(c.b, 1, j)));
    }
  };
  if (ex_.scalar) {
    VCHECK(o, fl.scalar, "harness: result kinds differ");
    R S(0);
    if (c.op == O_EVAL) {
      R x(c.xnum, 64); x.canonicalize();
      for (size_t j = (size_t)c.a.s; (i64)j + 1 < c.a.e; j++)
        if (pts[j] <= x && x <= pts[j + 1]) {
          R dx = absr(x - (pts[j] + pts[j + 1]) / 2), s1 = sh_sum(sh_abs(coef(c.a, oa, j)), dx);
          if (s1 > S) S = s1;  // at a shared grid point either piece may be used: take the larger allowance
        }
      if (S == 0 && fl.value == 0) return;
    } else {
      for (size_t j = 0; j + 1 < pts.size(); j++) {
        R h = (pts[j + 1] - pts[j]) / 2, xm = absr((pts[j] + pts[j + 1]) / 2);
        Sh A = sh_abs(coef(c.a, oa, j)), B = sh_abs(coef(c.b, ob, j)), F = sh_abs(coef(c.b, 1, j));
        if (c.op == O_LINFORM) S += sh_integral(sh_expr(ast, A, xm, F), h);
        else if (c.op == O_BILDIAG) S += sh_integral(sh_mul(sh_expr(ast, A, xm, F), sh_expr(ast2, A, xm, F)), h);
        else S += sh_integral(sh_mul(sh_expr(ast, A, xm, F), sh_expr(ast2, B, xm, F)), h);
      }
    }
    R err = absr(fl.value - ex_.value);
    for (const auto &v : exr.values) if (absr(fl.value - v) < err) err = absr(fl.value - v);
    judge(err, S, "value");
    return;
  }
  VCHECK(o, !fl.scalar && fl.start == ex_.start && fl.end == ex_.end && fl.coeffs.size() == ex_.coeffs.size(), label << ": result window differs between the exact and the floating-point run");
  for (size_t i = 0; i < ex_.coeffs.size(); i++) {
    size_t j = ex_.start + i;
    R h = (pts[j + 1] - pts[j]) / 2, E(0), p(1);
    VCHECK(o, fl.coeffs[i].size() == ex_.coeffs[i].size(), "harness: array sizes differ");
    for (size_t k = 0; k < ex_.coeffs[i].size(); k++) { E += absr(fl.coeffs[i][k] - ex_.coeffs[i][k]) * p; p *= h; }
    judge(E, sh_sum(shadow_at(j), h), "interval " + std::to_string(j));
    if (o.failed) return;
  }
}

#ifndef VERIF_PART
#define VERIF_PART -1
#endif
#define PART(k) (VERIF_PART == -1 || VERIF_PART == (k))
template <class T>
static void dispatch(const FloatC &c, vf::Obs &o) {
  size_t oa = (size_t)std::min<i64>(std::max<i64>(c.oa, 0), 4), ob = (size_t)std::min<i64>(std::max<i64>(c.ob, 0), 2);
  with_order<4>(oa, [&](auto A) { with_order<2>(ob, [&](auto B) { float_T<T, decltype(A)::value, decltype(B)::value>(c, o); }); });
}
void fl_f(const FloatC &c, vf::Obs &o);
void fl_d(const FloatC &c, vf::Obs &o);
void fl_ld(const FloatC &c, vf::Obs &o);
#if PART(1)
void fl_f(const FloatC &c, vf::Obs &o) { dispatch<float>(c, o); }
#endif
#if PART(2)
void fl_d(const FloatC &c, vf::Obs &o) { dispatch<double>(c, o); }
#endif
#if PART(3)
void fl_ld(const FloatC &c, vf::Obs &o) { dispatch<long double>(c, o); }
#endif
#if PART(0)
static void check_float(const FloatC &c, vf::Obs &o) {
  if (c.type == 1) fl_f(c, o); else if (c.type == 3) fl_ld(c, o); else fl_d(c, o);
}
int main(int argc, char **argv) {
  if (const char *p = getenv("VERIF_TRANSCRIPT")) {
    FILE *f = fopen(p, "w");
#if VERIF_PART == -1
    g_transcript = f;
#else
    extern void set_transcript_all(FILE *);
    set_transcript_all(f);
#endif
  }
  auto gen = rc::gen::exec([] {
    FloatC c;
    c.type = pick(1, 3);
    // the statement's well-scaled domain: points k/8, |x| <= 8, gaps >= 1/8
    c.g.den = 8;
    int n = (int)pick(2, 9);
    int kind = (int)pick(0, 3);  // 0 near origin, 1 far from origin with minimal gaps, 2 strongly non-uniform, 3 mixed
    i64 total = 0;
    for (int i = 0; i + 1 < n; i++) {
      i64 gp = kind == 1 ? 1 : kind == 2 ? (chance(50) ? 1 : pick(8, 32)) : pick(1, 16);
      c.g.gaps.push_back(gp); total += gp;
    }
    while (total > 128) { total -= c.g.gaps.back(); c.g.gaps.pop_back(); }
    if (c.g.gaps.empty()) { c.g.gaps.push_back(1); total = 1; }
    i64 lo = -64, hi = 64 - total;
    c.g.off = kind == 1 ? (chance(50) ? hi : lo) : pick(lo, hi);
    c.op = pick(0, O_COUNT - 1);
    c.oa = pick(0, 4); c.ob = pick(0, 2);
    c.n = pick(0, 4); c.expr = pick(0, NEXPR - 1);
    size_t np = c.g.n();
    gen_pair(np, chance(70) ? (chance(50) ? P_IDENT : P_NESTED) : gen_placement(), c.a.s, c.a.e, c.b.s, c.b.e);
    CoefOpt co; co.dyadic = true; co.max_num = 8; co.zero_interval_pct = 5; co.zero_spline_pct = 2;
    gen_coeffs(c.a, 4, co); gen_coeffs(c.b, 4, co);
    if (c.op == O_SUB && chance(50)) { c.b = c.a; if (!c.b.num.empty()) c.b.num[0] += 1; c.ob = std::min<i64>(c.oa, 2); }  // cancelling operand pair
    c.cnum = pick(-8, 8); if (c.cnum == 0) c.cnum = 3; c.cden = one_of<i64>({1, 2, 4, 8});
    c.xnum = pick((c.g.off) * 8, (c.g.off + total) * 8);
    if (chance(10)) {
      // NEARLY uniform grid inside the same domain: spacings 1/8 (or 1/4) + d_i with 0 <= d_i < 2^-j, every point exactly
      // representable in the case's type ("equal within a tolerance" is not equal)
      const int kmax = c.type == 1 ? 17 : 45;
      const int k = (int)pick(12, kmax), j = (int)pick(8, k - 3);
      const i64 den = (i64)1 << k, h = den / (chance(70) ? 8 : 4);
      c.g.den = den; c.g.gaps.clear();
      const int pattern = (int)pick(0, 2);
      const i64 cnt = (i64)np - 1, where = pick(0, std::max<i64>(0, cnt - 1));
      i64 tot = 0;
      for (i64 i = 0; i < cnt; i++) { i64 d = (pattern == 0 ? i == where : pattern == 1 ? true : i % 2 == 0) ? pick(1, std::max<i64>(1, den >> j)) : 0; c.g.gaps.push_back(h + d); tot += h + d; }
      c.g.off = chance(40) ? -8 * den : chance(50) ? 8 * den - tot : -tot / 2;
      c.xnum = (c.g.off / (den / 64)) + pick(0, std::max<i64>(1, tot / (den / 64)));
    }
    return c;
  });
  vf::add_sub<FloatC>("float-ops", 6000, gen, check_float);
  return vf::main_impl(argc, argv, "C16");
}
#endif
#if VERIF_PART != -1
// transcript plumbing across parts
#if VERIF_PART == 1
void set_tr1(FILE *f) { g_transcript = f; }
#elif VERIF_PART == 2
void set_tr2(FILE *f) { g_transcript = f; }
#elif VERIF_PART == 3
void set_tr3(FILE *f) { g_transcript = f; }
#else
void set_tr1(FILE *f); void set_tr2(FILE *f); void set_tr3(FILE *f);
void set_transcript_all(FILE *f) { set_tr1(f); set_tr2(f); set_tr3(f); }
#endif
#endif
