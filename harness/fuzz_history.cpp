// C09 (also C10 / C14 oracles) -- libFuzzer front end of the history
// interpreter: bytes -> ops (5 bytes each), T = double, snapshots compared
// bitwise. Build: clang++ -fsanitize=fuzzer,address,undefined -D_GLIBCXX_DEBUG.
// A failing oracle prints the decoded history and traps, so libFuzzer saves
// the input as crash-*; re-run a saved input by passing its path.
#include <cstdint>
#include <cstdio>
#include <cstdlib>

#include "hist.h"

namespace hist {
template <>
struct Traits<double> {
  static double make(int n, int d) { return (double)n / (double)(d < 1 ? 1 : d); }
  static bool same(const double &a, const double &b) { return std::memcmp(&a, &b, sizeof a) == 0; }
  static constexpr bool exact_arith = false;
};
}  // namespace hist
#include "hist_parts.h"
HIST_INSTANTIATE(double)

#if VERIF_PART == -1 || VERIF_PART == 0
static unsigned long long g_execs = 0, g_steps = 0, g_nt09 = 0, g_nt10 = 0, g_nt14 = 0, g_nt08 = 0, g_moves = 0, g_throws = 0;
static unsigned long long g_opcount[hist::CODE_COUNT];
static void dump_counters() {
  const char *p = getenv("HIST_COUNTERS");
  if (!p) return;
  FILE *f = fopen(p, "w");
  if (!f) return;
  fprintf(f, "{\"execs\": %llu, \"steps\": %llu, \"nontrivial_c09\": %llu, \"nontrivial_c10\": %llu, \"nontrivial_c14\": %llu, \"nontrivial_c08\": %llu, \"with_moves\": %llu, \"with_throws\": %llu, \"ops\": {",
          g_execs, g_steps, g_nt09, g_nt10, g_nt14, g_nt08, g_moves, g_throws);
  for (int i = 0; i < hist::CODE_COUNT; i++) fprintf(f, "%s\"%s\": %llu", i ? ", " : "", hist::code_name(i), g_opcount[i]);
  fprintf(f, "}}\n");
  fclose(f);
}

extern "C" int LLVMFuzzerTestOneInput(const uint8_t *data, size_t size) {
  static bool init = false;
  static int focus = hist::F_ALL;
  if (!init) {
    init = true;
    atexit(dump_counters);
    if (const char *f = getenv("HIST_FOCUS")) focus = atoi(f);
  }
  hist::Interp<double> in;  // all state is local: nothing leaks between iterations
  in.focus = focus;
  size_t n = size / 5;
  if (n > 400) n = 400;
  for (size_t i = 0; i < n; i++) {
    hist::Op op;
    op.code = data[5 * i] % hist::CODE_COUNT;
    op.a = data[5 * i + 1]; op.b = data[5 * i + 2]; op.c = data[5 * i + 3]; op.d = data[5 * i + 4];
    in.step(op);
    if (in.failed) break;
  }
  g_execs++;
  g_steps += in.steps_done;
  for (int c : in.executed) g_opcount[c]++;
  if (in.nt_c09) g_nt09++;
  if (in.nt_c10) g_nt10++;
  if (in.nt_c14) g_nt14++;
  if (in.nt_c08) g_nt08++;
  if (in.moves_seen) g_moves++;
  if (in.throws_seen) g_throws++;
  if (in.failed) {
    fprintf(stderr, "ORACLE-FAILURE %s\nhistory:", in.why.c_str());
    for (size_t i = 0; i < n && i <= in.steps_done; i++)
      fprintf(stderr, " %s(%d,%d,%d,%d)", hist::code_name(data[5 * i] % hist::CODE_COUNT), data[5 * i + 1], data[5 * i + 2], data[5 * i + 3], data[5 * i + 4]);
    fprintf(stderr, "\n");
    dump_counters();
    __builtin_trap();
  }
  return 0;
}
#endif
