// C08 -- operations across different grids are refused, never computed; equal
// grids in distinct objects are the same grid.
#include "common/cases.h"
#ifndef VERIF_PART
#define VERIF_PART -1
#endif
#define PART(k) (VERIF_PART == -1 || VERIF_PART == (k))
#if PART(1)
#include <bspline/integration/numerical.h>
#endif

using namespace vc;
using namespace bspline::operators;
using bspline::exceptions::BSplineException;
using bspline::exceptions::ErrorCode;
using bspline::integration::BilinearForm;
using bspline::integration::LinearForm;

struct GridsC {
  GridC g;
  i64 mut = 0, mutpos = 0;  // 0 point moved, 1 extra front, 2 extra back, 3 extra inside, 4 first dropped, 5 last dropped,
                            // 6 point moved outside the hull of both windows (grids agree where the supports meet), 7 EQUAL grid in a distinct object
  SplineC a, b, v;          // a on g; b (and factor v) on g'
  i64 oa = 0, ob = 0, entry = 0, lcpos = 0, lccount = 2, type = 0;
  template <class A>
  void io(A &x) {
    x("g", g); x("mut", mut); x("mutpos", mutpos); x("a", a); x("b", b); x("v", v); x("oa", oa); x("ob", ob);
    x("entry", entry); x("lcpos", lcpos); x("lccount", lccount); x("type", type);
  }
};
enum Entry { E_ADD, E_SUB, E_MUL, E_IADD, E_ISUB, E_LINCOMB, E_BIL_ID, E_BIL_OP, E_BIL_CALL, E_INTEGRATE, E_SOP_APPLY, E_SOP_COMPOUND, E_LIN_SOP, E_BIL_SOP_SAMEGRID, E_BIL_SOP_DIFF, E_GENERATOR, E_COUNT };
static const char *entry_name(int e) {
  static const char *n[] = {"a+b", "a-b", "a*b", "a+=b", "a-=b", "linearCombination", "BilinearForm{}.evaluate", "BilinearForm{X,Dx}.evaluate", "BilinearForm{}()", "integrate<n>", "SplineOperator*s",
                            "compound-with-SplineOperator*s", "LinearForm{SplineOperator}", "BilinearForm{SplineOperator}(a,a') same grid", "BilinearForm{SplineOperator}(a,b) different grids", "BSplineGenerator(knots,grid)"};
  return e >= 0 && e < E_COUNT ? n[e] : "?";
}

// mutated grid as plain integers over a doubled denominator (so a point can move by half a unit)
static GridC mutate(const GridC &g, i64 mut, i64 mutpos, i64 lo, i64 hi, bool &differs) {
  GridC m = g;
  m.den = g.den * 2; m.off = g.off * 2;
  for (auto &x : m.gaps) x = std::max<i64>(1, x) * 2;
  size_t n = m.gaps.size() + 1;
  differs = true;
  auto move_point = [&](size_t k) {  // move point k by one (half an original unit), keeps monotonicity since gaps >= 2
    if (k == 0) { m.off += 1; m.gaps[0] -= 1; }
    else { m.gaps[k - 1] += 1; if (k < n - 1) m.gaps[k] -= 1; }
  };
  switch (mut) {
    case 0: move_point((size_t)mutpos % n); break;
    case 1: m.off -= 2; m.gaps.insert(m.gaps.begin(), 2); break;
    case 2: m.gaps.push_back(3); break;
    case 3: { size_t k = (size_t)mutpos % m.gaps.size(); i64 gp = m.gaps[k]; m.gaps[k] = 1; m.gaps.insert(m.gaps.begin() + (long)k + 1, gp - 1); break; }
    case 4: if (n >= 3) { m.off += m.gaps[0]; m.gaps.erase(m.gaps.begin()); } else move_point(0); break;
    case 5: if (n >= 3) m.gaps.pop_back(); else move_point(n - 1); break;
    case 6: {
      // a point outside [lo,hi) (hull of both windows) if there is one
      std::vector<size_t> cand;
      for (size_t k = 0; k < n; k++) if ((i64)k < lo || (i64)k >= hi) cand.push_back(k);
      if (cand.empty()) move_point((size_t)mutpos % n); else move_point(cand[(size_t)mutpos % cand.size()]);
      break;
    }
    default: differs = false; break;
  }
  return m;
}

template <class T, size_t oa, size_t ob>
static void grids_T(const GridsC &c, vf::Obs &o) {
  constexpr bool isQ = std::is_same_v<T, Q>;
  i64 lo = std::min(c.a.e > c.a.s ? c.a.s : (i64)1 << 30, c.b.e > c.b.s ? c.b.s : (i64)1 << 30);
  i64 hi = std::max(c.a.e, c.b.e);
  bool differs = true;
  GridC gm = mutate(c.g, c.mut, c.mutpos, lo, hi, differs);
  auto g1 = make_grid<T>(c.g);
  auto g2 = make_equal_grid<T>(gm);  // (a zero point of the other sign: irrelevant where gm differs, meaningful for the equal-in-a-distinct-object mutation)
  VCHECK(o, (g1 != g2) == differs && (g1 == g2) == !differs, "harness/Grid: grids compare " << (g1 == g2 ? "equal" : "different") << " but were built " << (differs ? "different" : "equal"));
  // clamp windows to the respective grids
  auto clamp = [](SplineC s, size_t n) {
    if (s.e > (i64)n) s.e = (i64)n;
    if (s.s >= s.e) s.s = s.e = 0;
    return s;
  };
  SplineC ca = clamp(c.a, g1.size()), cb = clamp(c.b, g2.size()), cv = clamp(c.v, g2.size());
  auto a = make_spline<T, oa>(g1, ca);
  auto b = make_spline<T, ob>(g2, cb);
  auto v = make_spline<T, 1>(g2, cv);
  auto a2 = make_spline<T, ob>(g1, clamp(c.b, g1.size()));  // second operand on a's grid
  const auto a0 = a; const auto b0 = b; const auto v0 = v; const auto a20 = a2;
  const bool a_int = ca.e - ca.s >= 2, b_int = cb.e - cb.s >= 2;
  o.cls(std::string("entry:") + entry_name((int)c.entry));
  o.cls("mutation:" + std::to_string(c.mut));
  o.cls(std::string("placement:") + placement_name(classify_pair(ca.s, ca.e, cb.s, cb.e)));
  o.cls(std::string("type:") + Scalar<T>::name);
  o.nt(c.mut == 6 || c.mut == 7 || !a_int || !b_int || c.entry == E_IADD || c.entry == E_ISUB);

  // run the entry point; must_throw says whether the statement demands a refusal; returned tells whether a value came back
  bool threw = false, foreign = false, returned = false, must_throw = differs, may_skip = false;
  ErrorCode code = ErrorCode::UNDETERMINED;
  std::string what;
  auto run = [&](auto &&f) {
    try { f(); returned = true; }
    catch (const BSplineException &e) { threw = true; code = e.getErrorCode(); what = e.what(); }
    catch (const std::exception &e) { foreign = true; what = e.what(); }
  };
  bool any_code = false;
  switch (c.entry) {
    case E_ADD: run([&] { auto r = a + b; (void)r; }); break;
    case E_SUB: run([&] { auto r = a - b; (void)r; }); break;
    case E_MUL: run([&] { auto r = a * b; (void)r; }); break;
    case E_IADD:
      if constexpr (ob <= oa) run([&] { a += b; }); else run([&] { b += a; });
      break;
    case E_ISUB:
      if constexpr (ob <= oa) run([&] { a -= b; }); else run([&] { b -= a; });
      break;
    case E_LINCOMB: {
      size_t cnt = (size_t)std::min<i64>(std::max<i64>(c.lccount, 2), 5), pos = (size_t)c.lcpos % cnt;
      std::vector<bspline::Spline<T, oa>> sp(cnt, a);
      sp[pos] = make_spline<T, oa>(g2, cb);
      std::vector<T> cf(cnt, mk<T>(3, 2));
      // the refusal is a statement about the ARGUMENTS' grids, not about the coefficients: the foreign spline (or every
      // spline) may well carry a vanishing coefficient (+0 / -0)
      if (c.lcpos & 16) { cf[pos] = mk<T>(0); if constexpr (!isQ) if (c.lcpos & 32) cf[pos] = -cf[pos]; o.cls("lincomb:zero-coefficient-on-the-foreign-spline"); }
      else if ((c.lcpos & 96) == 96) { for (auto &x : cf) x = mk<T>(0); o.cls("lincomb:all-coefficients-zero"); }
      const auto sp0 = sp;
      if (c.lcpos & 8) run([&] { auto r = bspline::linearCombination(cf.begin(), cf.end(), sp.begin(), sp.end()); (void)r; });
      else run([&] { auto r = bspline::linearCombination(cf, sp); (void)r; });
      VCHECK(o, sp == sp0, "linearCombination modified its arguments");
      break;
    }
    case E_BIL_ID: run([&] { auto r = BilinearForm<IdentityOperator, IdentityOperator>{}.evaluate(a, b); (void)r; }); break;
    case E_BIL_OP: run([&] { auto r = BilinearForm{X<1>{}, Dx<1>{} + X<0>{}}.evaluate(a, b); (void)r; }); break;
    case E_BIL_CALL: run([&] { auto r = bspline::integration::ScalarProduct{}(a, b); (void)r; }); break;
    case E_INTEGRATE:
#if PART(1)
      if constexpr (!isQ) {
        run([&] { auto r = bspline::integration::integrate<3>([](const T &x) { return x; }, a, b); (void)r; });
        break;
      }
#endif
      run([&] { auto r = BilinearForm{X<1>{}}.evaluate(a, b); (void)r; });
      break;
    case E_SOP_APPLY:  // factor v on g', operand a on g
      must_throw = differs && a_int;
      run([&] { auto r = SplineOperator{v} * a; (void)r; });
      break;
    case E_SOP_COMPOUND:
      must_throw = differs && a_int;
      if (c.lcpos % 3 == 0) run([&] { auto r = (SplineOperator{v} * Dx<1>{}) * a; (void)r; });
      else if (c.lcpos % 3 == 1) run([&] { auto r = (X<1>{} * SplineOperator{v} + Dx<0>{}) * a; (void)r; });
      else run([&] { auto r = (mk<T>(2) * SplineOperator{v} - IdentityOperator{}) * a; (void)r; });
      break;
    case E_LIN_SOP:
      must_throw = differs && a_int;
      run([&] { auto r = LinearForm{SplineOperator{v}}(a); (void)r; });
      break;
    case E_BIL_SOP_SAMEGRID: {  // both operands on g, factor on g': guard reached only on common intervals
      SplineC ca2 = clamp(c.b, g1.size());
      i64 l = std::max(ca.s, ca2.s), h = std::min(ca.e, ca2.e);
      bool share = a_int && ca2.e - ca2.s >= 2 && h - l >= 2;
      must_throw = differs && share;
      may_skip = differs && !share;  // neither a throw nor a value is demanded (DESIGN 6.2)
      run([&] { auto r = BilinearForm{SplineOperator{v}, Dx<0>{}}(a, a2); (void)r; });
      break;
    }
    case E_BIL_SOP_DIFF:
      run([&] { auto r = BilinearForm{IdentityOperator{}, SplineOperator{v} * X<1>{}}.evaluate(a, b); (void)r; });
      break;
    default: {  // generator refuses a supplied grid that does not match its knots
      any_code = true;
      std::vector<T> knots = c.g.values<T>();
      if (c.lcpos & 1) knots.insert(knots.begin(), knots.front());  // a repeated boundary knot
      run([&] { bspline::BSplineGenerator<T> gen(knots, g2); (void)gen; });
      break;
    }
  }
  VCHECK(o, !foreign, entry_name((int)c.entry) << ": foreign exception " << what);
  if (must_throw) {
    VCHECK(o, threw && !returned, entry_name((int)c.entry) << " on different grids (mutation " << c.mut << ") returned a value instead of throwing");
    VCHECK(o, any_code || code == ErrorCode::DIFFERING_GRIDS, entry_name((int)c.entry) << " threw code " << bspline::exceptions::getErrorCodeName(code) << " instead of DIFFERING_GRIDS");
  } else if (!may_skip) {
    VCHECK(o, !threw, entry_name((int)c.entry) << " refused although " << (differs ? "the guard cannot be reached" : "the grids are logically equal") << ": " << what);
  }
  if (threw || must_throw) {
    VCHECK(o, a == a0 && b == b0 && v == v0 && a2 == a20, entry_name((int)c.entry) << ": an argument (or the in-place target) changed although the call threw");
  }
  if (differs) return;

  // ---- positive half: equal grid in a distinct object behaves like a shared instance
  auto bs = make_spline<T, ob>(g1, cb);  // same window/coefficients on the SHARED instance
  auto vs = make_spline<T, 1>(g1, cv);
  VCHECK(o, b0 == bs && bs == b0, "splines on equal grids held in distinct objects compare unequal");
  auto same = [&](const auto &x, const auto &y, const char *w) {
    VCHECK(o, x == y, w << ": result with a distinct equal grid object differs from the result with a shared instance");
    if constexpr (isQ) VCHECK(o, ref::first_diff(denote(x), denote(y)) == -1, w << ": denoted functions differ");
  };
  same(a0 + b0, a0 + bs, "a+b");
  same(a0 - b0, a0 - bs, "a-b");
  same(a0 * b0, a0 * bs, "a*b");
  if constexpr (ob <= oa) { auto t = a0; t += b0; auto u = a0; u += bs; same(t, u, "a+=b"); auto t2 = a0; t2 -= b0; auto u2 = a0; u2 -= bs; same(t2, u2, "a-=b"); }
  {
    std::vector<bspline::Spline<T, oa>> s1{a0, make_spline<T, oa>(g2, cb)}, s2{a0, make_spline<T, oa>(g1, cb)};
    std::vector<T> cf{mk<T>(2), mk<T>(-1, 2)};
    same(bspline::linearCombination(cf, s1), bspline::linearCombination(cf, s2), "linearCombination");
  }
  VCHECK(o, (BilinearForm{X<1>{}, Dx<1>{}}.evaluate(a0, b0) == BilinearForm{X<1>{}, Dx<1>{}}.evaluate(a0, bs)), "bilinear form differs between distinct-equal and shared grid");
  VCHECK(o, bspline::integration::ScalarProduct{}(a0, b0) == bspline::integration::ScalarProduct{}(a0, bs), "scalar product differs between distinct-equal and shared grid");
  same(SplineOperator{v0} * a0, SplineOperator{vs} * a0, "SplineOperator*s");
  VCHECK(o, LinearForm{SplineOperator{v0}}(a0) == LinearForm{SplineOperator{vs}}(a0), "LinearForm{SplineOperator} differs");
  VCHECK(o, (BilinearForm{SplineOperator{v0}, Dx<0>{}}(a0, a20)) == (BilinearForm{SplineOperator{vs}, Dx<0>{}}(a0, a20)), "BilinearForm{SplineOperator} differs");
#if PART(1)
  if constexpr (!isQ) {
    auto f = [](const T &x) { return x * x; };
    VCHECK(o, bspline::integration::integrate<3>(f, a0, b0) == bspline::integration::integrate<3>(f, a0, bs), "integrate<3> differs between distinct-equal and shared grid");
  }
#endif
}

void grids_q(const GridsC &c, vf::Obs &o);
void grids_d(const GridsC &c, vf::Obs &o);
template <class T>
static void dispatch(const GridsC &c, vf::Obs &o) {
  size_t oa = (size_t)std::min<i64>(std::max<i64>(c.oa, 0), 2), ob = (size_t)std::min<i64>(std::max<i64>(c.ob, 0), 2);
  with_order<2>(oa, [&](auto A) { with_order<2>(ob, [&](auto B) { grids_T<T, decltype(A)::value, decltype(B)::value>(c, o); }); });
}
#if PART(0)
void grids_q(const GridsC &c, vf::Obs &o) { dispatch<Q>(c, o); }
#endif
#if PART(1)
void grids_d(const GridsC &c, vf::Obs &o) { dispatch<double>(c, o); }
#endif
#if PART(0)
static void check_grids(const GridsC &c, vf::Obs &o) {
  if (c.type == 1) grids_d(c, o); else grids_q(c, o);
}
int main(int argc, char **argv) {
  auto gen = rc::gen::exec([] {
    GridsC c;
    c.type = chance(35) ? 1 : 0;
    GridOpt go; go.dyadic = c.type == 1; go.max_abs = c.type == 1 ? 8 : 64; go.min_n = 2; go.max_n = 9;
    c.g = gen_grid(go);
    c.mut = *rc::gen::weightedElement<i64>({{3, 0}, {2, 1}, {2, 2}, {2, 3}, {2, 4}, {2, 5}, {5, 6}, {4, 7}});
    c.mutpos = pick(0, 20);
    c.entry = pick(0, E_COUNT - 1);
    c.oa = pick(0, 2); c.ob = pick(0, 2);
    gen_pair(c.g.n(), gen_placement(), c.a.s, c.a.e, c.b.s, c.b.e);
    CoefOpt co; co.dyadic = c.type == 1;
    gen_coeffs(c.a, 2, co); gen_coeffs(c.b, 2, co);
    c.v = gen_spline(c.g.n(), 1, -1, co);
    c.lcpos = pick(0, 127); c.lccount = pick(2, 5);
    return c;
  });
  vf::add_sub<GridsC>("grids", 6000, gen, check_grids);
  return vf::main_impl(argc, argv, "C08");
}
#endif
