#!/usr/bin/env python3
"""Expression-program generator (C05, C06, C07, C19).
usage: exprgen.py <seed> <n_units> <exprs_per_unit> <outdir> [--catalogue]
Draws operator expression trees from the grammar
  E ::= I | X<n> (0..3) | Dx<n> (0..4) | SplineOperator{f_k} (k 0..2)
      | E*E | E+E | E-E | c*E | E*c | E/c | E+c | c+E | E-c | c-E | -E
  c ::= T-valued literal K(n,d) | int literal
bounded by depth <= 5 and output order <= 6 for operand orders <= 3, and writes
translation units that instantiate every expression (built from rvalues only)
together with the same tree as a runtime AST for the reference interpreter."""
import random, sys, os

MAXORD = 6

def order(t, o):
    k = t[0]
    if k == 'I': return o
    if k == 'X': return o + t[1]
    if k == 'D': return max(t[1], o) - t[1]
    if k == 'S': return o + t[1]
    if k == 'mul': return order(t[1], order(t[2], o))
    if k in ('add', 'sub'): return max(order(t[1], o), order(t[2], o))
    if k in ('lscale', 'rscale', 'div', 'neg'): return order(sub_of(t), o)
    if k in ('addc', 'cadd', 'subc', 'csub'): return max(order(sub_of(t), o), o)
    raise ValueError(k)

def sub_of(t):
    k = t[0]
    if k in ('lscale', 'cadd', 'csub'): return t[2]
    if k in ('rscale', 'div', 'addc', 'subc'): return t[1]
    if k == 'neg': return t[1]
    raise ValueError(k)

def max_inter(t, o):
    """largest order appearing anywhere while transforming an order-o input"""
    k = t[0]
    here = order(t, o)
    if k in ('I', 'X', 'D', 'S'): return here
    if k == 'mul':
        inner = order(t[2], o)
        return max(here, max_inter(t[2], o), max_inter(t[1], inner))
    if k in ('add', 'sub'): return max(here, max_inter(t[1], o), max_inter(t[2], o))
    return max(here, max_inter(sub_of(t), o))

def scalar(rng):
    if rng.random() < 0.5:
        n = rng.choice([-5, -3, -2, -1, 1, 2, 3, 4, 7]); d = rng.choice([1, 2, 3, 5])
        return ('q', n, d)
    if rng.random() < 0.3:  # built-in scalar types other than int (unsigned ones make a negation in the scalar's own type wrap)
        return (rng.choice('uzlh'), rng.choice([2, 3, 4, 5, 7]))
    return ('i', rng.choice([-3, -2, -1, 2, 3, 4, 5]))

def leaf(rng):
    r = rng.random()
    if r < 0.08: return ('I',)
    if r < 0.38: return ('X', rng.choice([0, 1, 1, 2, 2, 3]))
    if r < 0.68: return ('D', rng.choice([0, 1, 1, 2, 2, 3, 4]))
    return ('S', rng.choice([0, 1, 1, 2]))

def gen(rng, depth):
    if depth == 0 or rng.random() < 0.22: return leaf(rng)
    k = rng.choices(['mul', 'add', 'sub', 'lscale', 'rscale', 'div', 'addc', 'cadd', 'subc', 'csub', 'neg'],
                    weights=[6, 3, 3, 2, 2, 2, 1.5, 1.5, 1.5, 1.5, 1.5])[0]
    if k in ('mul', 'add', 'sub'): return (k, gen(rng, depth - 1), gen(rng, depth - 1))
    if k in ('lscale', 'cadd', 'csub'): return (k, scalar(rng), gen(rng, depth - 1))
    if k in ('rscale', 'div', 'addc', 'subc'): return (k, gen(rng, depth - 1), scalar(rng))
    return ('neg', gen(rng, depth - 1))

def ok(t):
    return all(max_inter(t, o) <= MAXORD for o in range(4))

def cs(c):
    if c[0] == 'u': return '%du' % c[1]                       # unsigned int
    if c[0] == 'z': return 'static_cast<size_t>(%d)' % c[1]   # size_t
    if c[0] == 'l': return '%dL' % c[1]                       # long
    if c[0] == 'h': return 'static_cast<unsigned short>(%d)' % c[1]
    if c[0] == 'q': return 'ex::K(%d, %d)' % (c[1], c[2])
    return '(%d)' % c[1] if c[1] < 0 else '%d' % c[1]
def rs(c):
    if c[0] in 'uzlh': return 'rq(%d)' % c[1]
    if c[0] == 'q': return 'rq(%d, %d)' % (c[1], c[2])
    return 'rq(%d)' % c[1]
def ts(c):
    if c[0] in 'uzlh': return '%d%s' % (c[1], {'u': 'u', 'z': 'uz', 'l': 'L', 'h': 'us'}[c[0]])
    if c[0] == 'q': return 'q(%d/%d)' % (c[1], c[2])
    return '%d' % c[1]

def cpp(t):
    k = t[0]
    if k == 'I': return 'bo::IdentityOperator{}'
    if k == 'X': return 'bo::X<%d>{}' % t[1]
    if k == 'D': return 'bo::Dx<%d>{}' % t[1]
    if k == 'S': return 'bo::SplineOperator{f%d}' % t[1]
    if k == 'mul': return '(%s * %s)' % (cpp(t[1]), cpp(t[2]))
    if k == 'add': return '(%s + %s)' % (cpp(t[1]), cpp(t[2]))
    if k == 'sub': return '(%s - %s)' % (cpp(t[1]), cpp(t[2]))
    if k == 'lscale': return '(%s * %s)' % (cs(t[1]), cpp(t[2]))
    if k == 'rscale': return '(%s * %s)' % (cpp(t[1]), cs(t[2]))
    if k == 'div': return '(%s / %s)' % (cpp(t[1]), cs(t[2]))
    if k == 'addc': return '(%s + %s)' % (cpp(t[1]), cs(t[2]))
    if k == 'cadd': return '(%s + %s)' % (cs(t[1]), cpp(t[2]))
    if k == 'subc': return '(%s - %s)' % (cpp(t[1]), cs(t[2]))
    if k == 'csub': return '(%s - %s)' % (cs(t[1]), cpp(t[2]))
    if k == 'neg': return '(-%s)' % cpp(t[1])
def ast(t):
    k = t[0]
    if k == 'I': return 'I()'
    if k == 'X': return 'X(%d)' % t[1]
    if k == 'D': return 'D(%d)' % t[1]
    if k == 'S': return 'SOP(%d)' % t[1]
    if k == 'mul': return 'MUL(%s, %s)' % (ast(t[1]), ast(t[2]))
    if k == 'add': return 'ADD(%s, %s)' % (ast(t[1]), ast(t[2]))
    if k == 'sub': return 'SUB(%s, %s)' % (ast(t[1]), ast(t[2]))
    if k == 'lscale': return 'SCALE(%s, %s)' % (rs(t[1]), ast(t[2]))
    if k == 'rscale': return 'SCALE(%s, %s)' % (rs(t[2]), ast(t[1]))
    if k == 'div': return 'DIV(%s, %s)' % (ast(t[1]), rs(t[2]))
    if k == 'addc': return 'ADDC(%s, %s)' % (ast(t[1]), rs(t[2]))
    if k == 'cadd': return 'ADDC(%s, %s)' % (ast(t[2]), rs(t[1]))
    if k == 'subc': return 'SUBC(%s, %s)' % (ast(t[1]), rs(t[2]))
    if k == 'csub': return 'CSUB(%s, %s)' % (rs(t[1]), ast(t[2]))
    if k == 'neg': return 'NEG(%s)' % ast(t[1])
def text(t):
    k = t[0]
    if k == 'I': return 'I'
    if k == 'X': return 'X<%d>' % t[1]
    if k == 'D': return 'Dx<%d>' % t[1]
    if k == 'S': return 'S{f%d}' % t[1]
    b = {'mul': '*', 'add': '+', 'sub': '-'}
    if k in b: return '(%s%s%s)' % (text(t[1]), b[k], text(t[2]))
    if k == 'lscale': return '(%s*%s)' % (ts(t[1]), text(t[2]))
    if k == 'rscale': return '(%s*%s)' % (text(t[1]), ts(t[2]))
    if k == 'div': return '(%s/%s)' % (text(t[1]), ts(t[2]))
    if k == 'addc': return '(%s+%s)' % (text(t[1]), ts(t[2]))
    if k == 'cadd': return '(%s+%s)' % (ts(t[1]), text(t[2]))
    if k == 'subc': return '(%s-%s)' % (text(t[1]), ts(t[2]))
    if k == 'csub': return '(%s-%s)' % (ts(t[1]), text(t[2]))
    if k == 'neg': return '(-%s)' % text(t[1])

def kinds(t, acc):
    acc.add(t[0])
    if t[0] in ('lscale', 'cadd', 'csub'): acc.add(t[0] + ':' + t[1][0])
    if t[0] in ('rscale', 'div', 'addc', 'subc'): acc.add(t[0] + ':' + t[2][0])
    for x in t[1:]:
        if isinstance(x, tuple) and x and x[0] not in ('q', 'i', 'u', 'z', 'l', 'h') and isinstance(x[0], str): kinds(x, acc)
    return acc

Q = lambda n, d=1: ('q', n, d)
Iv = lambda n: ('i', n)
FIXED = [
    ('I',),                                                                                   # with itself: the scalar product
    ('sub', ('mul', ('D', 1), ('X', 1)), ('mul', ('X', 1), ('D', 1))),                        # commutator = identity
    ('mul', ('mul', ('X', 1), ('D', 1)), ('S', 0)),                                           # (A*B)*C
    ('mul', ('X', 1), ('mul', ('D', 1), ('S', 0))),                                           # A*(B*C)
    ('lscale', Q(1, 2), ('add', ('neg', ('D', 2)), ('X', 2))),                                # harmonic oscillator
    ('subc', ('addc', ('sub', ('mul', ('neg', ('X', 2)), ('D', 2)), ('mul', ('lscale', Iv(2), ('X', 1)), ('D', 1))), Iv(2)), Iv(3)),  # hydrogen-like
    ('lscale', Q(-1, 2), ('mul', ('S', 0), ('D', 1))),                                        # diffusion
    ('add', ('lscale', Q(-1, 2), ('D', 2)), ('S', 2)),                                        # spline potential
    ('div', ('X', 1), Iv(2)),                                                                 # D2: division by an int
    ('csub', Iv(3), ('S', 1)), ('cadd', Q(2, 3), ('D', 1)), ('subc', ('X', 2), Q(1, 3)), ('addc', ('S', 1), Iv(-2)),
    ('div', ('mul', ('S', 1), ('D', 1)), Q(3, 2)), ('rscale', ('X', 1), Iv(-3)), ('neg', ('S', 2)),
]

# extra catalogue unit (cat_08): template parameters above the range the random grammar draws (n up to 7)
HIGH = [
    ('X', 5),
    ('mul', ('X', 4), ('D', 1)),
    ('mul', ('D', 2), ('X', 6)),
    ('sub', ('X', 7), ('lscale', Iv(2), ('X', 5))),
    ('div', ('mul', ('S', 0), ('X', 4)), Iv(3)),
    ('mul', ('D', 5), ('X', 5)),
    # built-in scalar types other than int in every scalar position (unsigned, size_t, long, unsigned short)
    ('subc', ('D', 1), ('u', 3)),
    ('mul', ('D', 1), ('subc', ('X', 1), ('z', 2))),
    ('csub', ('u', 4), ('subc', ('X', 1), ('h', 2))),
    ('addc', ('lscale', ('l', -3), ('X', 2)), ('u', 5)),
    ('div', ('cadd', ('z', 3), ('S', 1)), ('l', 4)),
    ('neg', ('subc', ('rscale', ('D', 2), ('u', 2)), ('l', 7))),
    # cat_10: unary minus / subtraction applied DIRECTLY to a node scaled by an unsigned scalar (a sign folded into the scalar would wrap)
    ('neg', ('lscale', ('u', 2), ('X', 1))),
    ('neg', ('div', ('X', 2), ('u', 2))),
    ('neg', ('rscale', ('D', 1), ('z', 3))),
    ('sub', ('X', 1), ('lscale', ('h', 2), ('D', 1))),
    ('neg', ('neg', ('lscale', ('u', 3), ('S', 1)))),
    ('mul', ('neg', ('rscale', ('X', 1), ('u', 2))), ('div', ('D', 1), ('z', 2))),
]

def emit_unit(path, exprs, seed, unit):
    n = len(exprs)
    rng = random.Random(seed * 7919 + unit)
    out = ['// GENERATED by harness/exprgen.py seed=%d unit=%d -- do not edit' % (seed, unit), '#include "expr_common.h"', 'namespace bo = bspline::operators;', '']
    for i, t in enumerate(exprs):
        out += ['struct E%d {' % i,
                '  template <class F0, class F1, class F2>',
                '  static auto make(const F0 &f0, const F1 &f1, const F2 &f2) {',
                '    (void)f0; (void)f1; (void)f2;',
                '    return %s;' % cpp(t), '  }',
                '  static ex::NP ast() { using namespace ex; return %s; }' % ast(t),
                '  static const char *text() { return "%s"; }' % text(t), '};']
    combos_all = [(a, b) for a in range(4) for b in range(4)]
    for i in range(n):
        j = i if exprs[i] == ('I',) else (i * 5 + 1 + unit) % n
        combos = rng.sample(combos_all, 4)
        # keep orders small enough: output orders multiply in the product spline of the C07 cross-check
        ap = ', '.join('&ex::check_apply<E%d, %d>' % (i, o) for o in range(4))
        lf = ', '.join('&ex::check_linform<E%d, %d>' % (i, o) for o in range(4))
        bl = ', '.join('&ex::check_bilinear<E%d, E%d, %d, %d>' % (i, j, a, b) for a, b in combos)
        cb = ', '.join('{%d, %d}' % c for c in combos)
        out.append('static const bool reg%d = (ex::registry().push_back(ex::Entry{E%d::text(), {%s}, {%s}, {%s}, {%s}}), true);' % (i, i, ap, lf, bl, cb))
    out += ['int main(int argc, char **argv) { return ex::expr_main(argc, argv); }', '']
    open(path, 'w').write('\n'.join(out))

def main():
    seed, units, per, outdir = int(sys.argv[1]), int(sys.argv[2]), int(sys.argv[3]), sys.argv[4]
    catalogue = '--catalogue' in sys.argv
    if '--high' in sys.argv:
        os.makedirs(outdir, exist_ok=True)
        emit_unit(os.path.join(outdir, 'cat_08.cpp'), HIGH[:6], seed, 8)
        emit_unit(os.path.join(outdir, 'cat_09.cpp'), HIGH[6:12], seed, 9)
        emit_unit(os.path.join(outdir, 'cat_10.cpp'), HIGH[12:], seed, 10)
        print('wrote cat_08.cpp cat_09.cpp cat_10.cpp')
        return
    rng = random.Random(seed)
    os.makedirs(outdir, exist_ok=True)
    total = units * per
    exprs = list(FIXED) if catalogue else []
    seen = set(exprs)
    need = set(['mul', 'add', 'sub', 'neg', 'I', 'X', 'D', 'S'] + [k + ':' + s for k in ('lscale', 'rscale', 'div', 'addc', 'cadd', 'subc', 'csub') for s in 'qi'])
    have = set()
    for t in exprs: kinds(t, have)
    tries = 0
    while len(exprs) < total:
        tries += 1
        t = gen(rng, rng.choice([1, 2, 2, 3, 3, 4, 5]))
        if t in seen or not ok(t) or t[0] in ('I', 'X', 'D', 'S') and tries % 7: continue
        ks = kinds(t, set())
        # while productions are still missing, prefer trees that add one
        if catalogue and (need - have) and not (ks & (need - have)) and tries < 20000: continue
        have |= ks
        seen.add(t); exprs.append(t)
    if catalogue:
        missing = need - have
        assert not missing, missing
    rng.shuffle(exprs)
    for u in range(units):
        emit_unit(os.path.join(outdir, ('cat_%02d.cpp' if catalogue else 'gen_s%d_%%02d.cpp' % seed) % u), exprs[u * per:(u + 1) * per], seed, u)
    print('wrote %d units x %d expressions to %s' % (units, per, outdir))

if __name__ == '__main__':
    main()
