// C18 -- concurrent read-only use is race-free and deterministic.
// Build: clang++ -fsanitize=thread. A generated workload = a shared const pool
// (grids, splines of orders 0..3 sharing grids, supports, a generator, operator
// expressions, forms) + per-thread op lists with generated yield/spin patterns.
// Oracle: (1) ThreadSanitizer reports (halt_on_error) - any report kills the
// process and is a violation; (2) every thread's result vector is bitwise
// equal to a sequential execution of the same op list.
#include <bspline/integration/numerical.h>

#include <atomic>
#include <cstring>
#include <thread>

#include "common/cases.h"

using namespace vc;
namespace bo = bspline::operators;
namespace bi = bspline::integration;
using D = double;

struct ThreadC {
  std::vector<i64> ops;  // quadruples: code, i, j, pause
  template <class A>
  void io(A &a) { a("ops", ops); }
};
struct WorkC {
  GridC g;
  std::vector<SplineC> pool;
  std::vector<ThreadC> threads;
  i64 repeats = 3;
  i64 big = 0;  // number of points of a second, LARGE shared grid (0: none)
  template <class A>
  void io(A &a) { a("g", g); a("pool", pool); a("threads", threads); a("repeats", repeats); a("big", big); }
};
enum { T_EVAL, T_COPY_DESTROY, T_ASSIGN, T_ADD, T_SUB, T_MUL, T_APPLY, T_APPLY_SPLINEOP, T_LINFORM, T_BILFORM, T_GENERATE, T_PRED, T_LINCOMB, T_SUPPORT, T_INTEGRATE, T_GRID_COPY, T_EQUAL_GRID_MIX, T_LOCAL_GRID_MIX, T_HIGH_ORDER_OPS, T_EVAL_SWEEP, T_BIG_GRID, T_COUNT };
static const char *tname(int c) {
  static const char *n[] = {"evaluate", "copy+destroy", "copy-assign", "a+b", "a-b", "a*b", "apply-operator", "apply-spline-operator", "linear-form", "bilinear-form", "generateBSplines", "predicates", "linearCombination", "support-algebra", "integrate", "grid-copy", "mix-with-equal-grid-object", "mix-with-thread-local-grid", "high-order-operators", "evaluation-sweep-of-one-shared-spline", "large-shared-grid"};
  return c >= 0 && c < T_COUNT ? n[c] : "?";
}

// the shared, const pool
struct Pool {
  bspline::support::Grid<D> grid;
  std::vector<bspline::Spline<D, 0>> s0;
  std::vector<bspline::Spline<D, 1>> s1;
  std::vector<bspline::Spline<D, 2>> s2;
  std::vector<bspline::Spline<D, 3>> s3;
  std::vector<bspline::support::Support<D>> sups;
  // a logically equal grid held in a DISTINCT object (separately allocated storage) and splines living on it
  bspline::support::Grid<D> grid2;
  std::vector<bspline::Spline<D, 1>> s1b;
  std::vector<bspline::Spline<D, 2>> s2b;
  bspline::BSplineGenerator<D> gen;
  decltype(bo::X<1>{} * bo::Dx<1>{} - 2) op1 = bo::X<1>{} * bo::Dx<1>{} - 2;
  decltype(0.5 * (-bo::Dx<2>{} + bo::X<2>{})) op2 = 0.5 * (-bo::Dx<2>{} + bo::X<2>{});
  bo::SplineOperator<D, 1> sop;
  bi::LinearForm<bo::Position<1>> lf{bo::X<1>{}};
  bi::BilinearForm<bo::Derivative<1>, bo::Derivative<1>> bf{bo::Dx<1>{}, bo::Dx<1>{}};
  bi::ScalarProduct sp{};
  // a LARGE shared grid (hundreds of intervals) with splines spanning all of it and parts of it: per-interval state that
  // a change keeps in small process-wide tables (direct-mapped caches indexed by the interval number, ring buffers)
  // is evicted and refilled here while other threads still use it
  static std::vector<D> big_points(i64 n) {
    std::vector<D> v;
    D x = -8.0;
    for (i64 i = 0; i < std::max<i64>(n, 3); i++) { v.push_back(x); x += (i % 3 == 0 ? 0.125 : i % 3 == 1 ? 0.25 : 0.0625); }
    return v;
  }
  template <size_t o>
  static bspline::Spline<D, o> big_spline(const bspline::support::Grid<D> &g, size_t s, size_t e) {
    std::vector<std::array<D, o + 1>> co(e - s - 1);
    for (size_t i = 0; i < co.size(); i++) for (size_t k = 0; k <= o; k++) co[i][k] = (D)((int)((i * 7 + k * 3 + s) % 17) - 8) / 4.0;
    return bspline::Spline<D, o>(bspline::support::Support<D>(g, s, e), co);
  }
  bspline::support::Grid<D> gridBig;
  std::vector<bspline::Spline<D, 1>> big1;  // [0] whole grid, then blocks
  std::vector<bspline::Spline<D, 2>> big2;
  bspline::BSplineGenerator<D> genBig;
  Pool(const WorkC &c, const bspline::support::Grid<D> &g)
      : gridBig(big_points(c.big)), genBig(big_points(c.big)), grid(g), grid2(std::vector<D>(g.begin(), g.end())), gen(std::vector<D>(g.begin(), g.end()), g), sop(make_spline<D, 1>(g, c.pool.empty() ? SplineC() : c.pool[0])) {
    for (size_t i = 0; i < c.pool.size(); i++) {
      s0.push_back(make_spline<D, 0>(g, c.pool[i]));
      s1.push_back(make_spline<D, 1>(g, c.pool[i]));
      s2.push_back(make_spline<D, 2>(g, c.pool[i]));
      s3.push_back(make_spline<D, 3>(g, c.pool[i]));
      sups.push_back(s0.back().getSupport());
      s1b.push_back(make_spline<D, 1>(grid2, c.pool[i]));
      s2b.push_back(make_spline<D, 2>(grid2, c.pool[i]));
    }
    const size_t nb = gridBig.size();
    big1.push_back(big_spline<1>(gridBig, 0, nb)); big2.push_back(big_spline<2>(gridBig, 0, nb));
    for (size_t k = 0; k < 4; k++) { size_t s = k * (nb / 5), e = std::min(nb, s + nb / 2 + 2); big1.push_back(big_spline<1>(gridBig, s, e)); big2.push_back(big_spline<2>(gridBig, s, e)); }
  }
};
template <class S>
static void fold(std::vector<D> &out, const S &s) {
  out.push_back((D)s.getSupport().getStartIndex());
  out.push_back((D)s.getSupport().getEndIndex());
  for (const auto &a : s.getCoefficients()) for (const auto &v : a) out.push_back(v);
}
static void pause(i64 p) {
  if (p % 4 == 1) std::this_thread::yield();
  else if (p % 4 == 2) { volatile int x = 0; for (int i = 0; i < (int)(p % 97) * 20; i++) x = x + i; }
}
static void run_ops(const Pool &P, const ThreadC &t, std::vector<D> &out) {
  const size_t n = P.s0.size();
  bspline::Spline<D, 2> local(P.grid);
  for (size_t q = 0; q + 3 < t.ops.size(); q += 4) {
    int code = (int)(((t.ops[q] % T_COUNT) + T_COUNT) % T_COUNT);
    size_t i = (size_t)(unsigned)t.ops[q + 1] % n, j = (size_t)(unsigned)t.ops[q + 2] % n;
    switch (code) {
      case T_EVAL: { D x = P.grid[i % P.grid.size()] + 0.03125 * (D)j; out.push_back(P.s3[i](x)); out.push_back(P.s1[j](x)); break; }
      case T_COPY_DESTROY: { auto c3 = P.s3[i]; auto c0 = P.s0[j]; out.push_back((D)c3.getCoefficients().size() + (D)c0.getSupport().size()); break; }
      case T_ASSIGN: local = P.s2[i]; fold(out, local); break;
      case T_ADD: fold(out, P.s2[i] + P.s1[j]); break;
      case T_SUB: fold(out, P.s3[i] - P.s3[j]); break;
      case T_MUL: fold(out, P.s1[i] * P.s2[j]); break;
      case T_APPLY: fold(out, P.op1 * P.s2[i]); fold(out, P.op2 * P.s1[j]); break;
      case T_APPLY_SPLINEOP: fold(out, P.sop * P.s2[i]); break;
      case T_LINFORM: out.push_back(P.lf(P.s3[i])); out.push_back(bi::LinearForm{P.op1}(P.s2[j])); break;
      case T_BILFORM: out.push_back(P.bf(P.s2[i], P.s3[j])); out.push_back(P.sp(P.s1[i], P.s1[j])); out.push_back(bi::BilinearForm{P.sop, P.op2}(P.s1[i], P.s2[j])); break;
      case T_GENERATE: { auto b = P.gen.generateBSplines<2>(); for (const auto &s : b) fold(out, s); auto g2 = P.gen.getGrid(); out.push_back((D)g2.size()); break; }
      case T_PRED: out.push_back((D)P.s2[i].isZero() + 2 * (D)P.s2[i].checkOverlap(P.s1[j]) + 4 * (D)(P.s3[i] == P.s3[j])); break;
      case T_LINCOMB: { std::vector<D> cf(P.s2.size(), 0.5); cf[i] = -1.25; fold(out, bspline::linearCombination(cf, P.s2)); break; }
      case T_SUPPORT: { auto u = P.sups[i].calcUnion(P.sups[j]); auto x = P.sups[i].calcIntersection(P.sups[j]); auto cp = P.sups[i]; out.push_back((D)u.size() + 16 * (D)x.size() + 256 * (D)(cp == P.sups[j])); break; }
      case T_INTEGRATE: out.push_back(bi::integrate<3>([](const D &x) { return 1.0 + x * x; }, P.s1[i], P.s2[j])); break;
      case T_EQUAL_GRID_MIX: {
        // shared objects on two logically equal grids with distinct storage: the shared spline is the LEFT operand
        fold(out, P.s2[i] + P.s1b[j]); fold(out, P.s1[i] * P.s2b[j]);
        out.push_back(P.bf(P.s2[i], P.s2b[j])); out.push_back(P.sp(P.s1b[i], P.s1[j]));
        out.push_back((D)(P.s2[i].getSupport() == P.s2b[i].getSupport()) + 2 * (D)(P.grid == P.grid2) + 4 * (D)P.sups[i].hasSameGrid(P.s1b[j].getSupport()));
        fold(out, bo::SplineOperator{P.s1b[j]} * P.s2[i]);
        auto u = P.sups[i].calcUnion(P.s1b[j].getSupport()); out.push_back((D)u.size());
        break;
      }
      case T_LOCAL_GRID_MIX: {
        // every thread builds its own generator / grid from the same points and combines shared splines with local ones
        bspline::BSplineGenerator<D> lg(std::vector<D>(P.grid.begin(), P.grid.end()));
        auto lb = lg.generateBSplines<1>();
        if (!lb.empty()) {
          const auto &l = lb[j % lb.size()];
          fold(out, P.s2[i] * l); fold(out, P.s1[i] + l); out.push_back(P.sp(P.s3[i], l)); out.push_back((D)P.s0[i].checkOverlap(l));
          out.push_back(bi::LinearForm{bo::SplineOperator{P.s1[i]}}(l));
        }
        break;
      }
      case T_EVAL_SWEEP: {
        // every thread evaluates THE SAME shared const spline (the whole-grid one) at many points, sweeping the grid from
        // a thread-specific start: the values are compared bitwise with the sequential run, so state that evaluation
        // keeps inside the object shows up as a wrong value even when the race detector has nothing to report
        const size_t np = P.grid.size();
        auto sweep = [&](const auto &sp) {
          D acc = 0;
          for (size_t k = 0; k < 1500; k++) {
            size_t iv = (i + k / 12) % (np - 1);
            D x = P.grid[iv] + (P.grid[iv + 1] - P.grid[iv]) * (D)((k * 7 + j) % 16) / 16.0;
            D v = sp(x);
            acc += v;
            if (k % 100 == 0) out.push_back(v);
          }
          out.push_back(acc);
        };
        if (j & 1) sweep(P.s3[0]); else sweep(P.s1[0]);
        break;
      }
      case T_BIG_GRID: {
        if (P.gridBig.size() < 16) break;
        const auto &b1 = P.big1[i % P.big1.size()];
        const auto &b2 = P.big2[j % P.big2.size()];
        switch ((i + j) % 6) {
          case 0: fold(out, bo::X<1>{} * b1); break;
          case 1: fold(out, bo::X<2>{} * b2); break;
          case 2: out.push_back(P.lf(b1)); out.push_back(bi::LinearForm{bo::X<2>{} * bo::Dx<1>{}}(b2)); break;
          case 3: out.push_back(bi::BilinearForm{bo::X<1>{}, bo::X<2>{}}(b1, b2)); out.push_back(bi::BilinearForm{bo::X<1>{}}(b2, b2)); break;
          case 4: { auto bs = P.genBig.generateBSplines<2>(); out.push_back((D)bs.size()); fold(out, bs[(i * 37 + j) % bs.size()]); fold(out, bs.back()); break; }
          default: { D acc = 0; const size_t np = P.gridBig.size(); for (size_t k = 0; k < 600; k++) { size_t iv = (i * 41 + k) % (np - 1); acc += b2(P.gridBig[iv] + (P.gridBig[iv + 1] - P.gridBig[iv]) * 0.375); } out.push_back(acc); fold(out, P.op1 * b2); break; }
        }
        break;
      }
      case T_HIGH_ORDER_OPS: {
        // template instances that the tests and examples never use (lazily initialised tables would be filled here)
        switch (j % 6) {
          case 0: fold(out, bo::X<4>{} * P.s1[i]); break;
          case 1: fold(out, bo::X<5>{} * P.s0[i]); break;
          case 2: fold(out, bo::X<6>{} * P.s0[i]); break;
          case 3: fold(out, bo::Dx<3>{} * P.s3[i]); fold(out, bo::Dx<5>{} * P.s3[i]); break;
          case 4: out.push_back(bi::integrate<2>([](const D &x) { return x; }, P.s1[i], P.s1[i])); out.push_back(bi::integrate<5>([](const D &x) { return x; }, P.s1[i], P.s2[i])); break;
          default: out.push_back(bi::BilinearForm{bo::X<4>{}, bo::Dx<2>{} * bo::X<3>{}}(P.s1[i], P.s2[i])); break;
        }
        break;
      }
      default: { bspline::support::Grid<D> g = P.grid; auto s = bspline::support::Support<D>::createWholeGrid(g); out.push_back((D)s.size() + (D)(g == P.grid)); break; }
    }
    pause(t.ops[q + 3]);
  }
}

static i64 g_repeats = 0;  // 0: use the case's own value
static void check_workload(const WorkC &c, vf::Obs &o) {
  if (c.pool.empty() || c.threads.empty()) { o.discard("empty workload"); return; }
  auto grid = make_grid<D>(c.g);
  const Pool P(c, grid);
  const size_t nt = c.threads.size();
  o.cls("threads:" + std::to_string(nt));
  size_t nops = 0;
  for (const auto &t : c.threads) for (size_t q = 0; q + 3 < t.ops.size(); q += 4) { o.cls(std::string("op:") + tname((int)(((t.ops[q] % T_COUNT) + T_COUNT) % T_COUNT))); nops++; }
  o.nt(nt >= 2 && nops >= 4);
  i64 reps = g_repeats > 0 ? g_repeats : std::max<i64>(1, std::min<i64>(c.repeats, 10));
  // The threaded executions come FIRST: a sequential warm-up would fill any lazily initialised table or cache
  // before the threads start and hide exactly the races this check is after. The sequential reference follows.
  std::vector<std::vector<std::vector<D>>> runs;
  for (i64 r = 0; r < reps; r++) {
    std::vector<std::vector<D>> got(nt);
    std::atomic<size_t> ready{0};
    std::atomic<bool> go{false};
    std::vector<std::thread> th;
    for (size_t t = 0; t < nt; t++)
      th.emplace_back([&, t] {
        ready.fetch_add(1);
        while (!go.load(std::memory_order_acquire)) { }  // all threads start behind one barrier
        run_ops(P, c.threads[t], got[t]);
      });
    while (ready.load() < nt) std::this_thread::yield();
    go.store(true, std::memory_order_release);
    for (auto &x : th) x.join();
    runs.push_back(std::move(got));
  }
  std::vector<std::vector<D>> expect(nt);
  for (size_t t = 0; t < nt; t++) run_ops(P, c.threads[t], expect[t]);  // sequential reference
  for (size_t r = 0; r < runs.size(); r++)
    for (size_t t = 0; t < nt; t++) {
      const auto &got = runs[r][t];
      VCHECK(o, got.size() == expect[t].size(), "thread " << t << " produced " << got.size() << " values, sequential run " << expect[t].size());
      VCHECK(o, got.empty() || std::memcmp(got.data(), expect[t].data(), got.size() * sizeof(D)) == 0, "thread " << t << " obtained results that are not bit-identical to the sequential run (repeat " << r << ")");
    }
}

// first workload of every process: all threads immediately run EVERY op kind (cold start of anything lazily initialised)
static WorkC cold_start_case(int nthreads) {
  WorkC c;
  c.g.den = 2; c.g.off = -5; c.g.gaps = {1, 2, 1, 3, 1, 2};
  for (int i = 0; i < 4; i++) { SplineC s; s.s = i == 0 ? 0 : i; s.e = i == 0 ? 7 : std::min(7, i + 3); s.cden = 2; s.num = {3, -5, 2, 7, -1, 4, 6}; c.pool.push_back(s); }
  for (int t = 0; t < nthreads; t++) {
    ThreadC th;
    for (int k = 0; k < T_COUNT; k++) { int code = (k * 7 + t * 3) % T_COUNT; for (int j = 0; j < 6; j++) { th.ops.push_back(code); th.ops.push_back((t + j) % 4); th.ops.push_back(j); th.ops.push_back(0); } }
    c.threads.push_back(th);
  }
  c.repeats = 2;
  c.big = 600;
  return c;
}

int main(int argc, char **argv) {
  vf::ctx().no_twin = true;  // expensive cases: no twin prelude
  for (int i = 1; i + 1 < argc; i++)
    if (std::string(argv[i]) == "--repeats") {
      g_repeats = atoi(argv[i + 1]);
      for (int j = i; j + 2 < argc; j++) argv[j] = argv[j + 2];
      argc -= 2;
      break;
    }
  for (int i = 1; i < argc; i++)
    if (std::string(argv[i]) == "--replay") g_repeats = 20;  // schedules vary: a replay executes the workload 20 times
  auto gen = rc::gen::exec([] {
    WorkC c;
    GridOpt go; go.dyadic = true; go.max_abs = 8; go.min_n = 3; go.max_n = 8;
    c.g = gen_grid(go);
    int np = (int)pick(3, 6);
    CoefOpt co; co.dyadic = true;
    for (int i = 0; i < np; i++) c.pool.push_back(gen_spline(c.g.n(), 3, i == 0 ? W_WHOLE : -1, co));
    int nt = (int)*rc::gen::weightedElement<i64>({{3, 2}, {3, 3}, {3, 4}, {2, 8}, {1, 16}});
    for (int t = 0; t < nt; t++) {
      ThreadC th;
      int len = (int)pick(4, 24);
      for (int k = 0; k < len; k++) { th.ops.push_back(pick(0, T_COUNT - 1)); th.ops.push_back(pick(0, 15)); th.ops.push_back(pick(0, 15)); th.ops.push_back(pick(0, 200)); }
      c.threads.push_back(th);
    }
    c.repeats = 3;
    c.big = chance(55) ? pick(270, 700) : 0;
    return c;
  });
  vf::add_enum_sub("cold-start",
      [](vf::Sub &s, double) {
        WorkC c = cold_start_case(4);
        std::string text = vf::to_text(c);
        vf::ctx().cur_case = text;
        vf::Obs o;
        check_workload(c, o);
        vf::emit(s, text, o);
      },
      [](const std::string &t, vf::Obs &o) { check_workload(vf::from_text<WorkC>(t), o); }, /*every_shard=*/true);
  vf::add_sub<WorkC>("workloads", 40, gen, check_workload);
  return vf::main_impl(argc, argv, "C18");
}
