// C09 / C10 / C14 -- rapidcheck front end of the history interpreter (T = Q).
// usage: h_hist --focus C09|C10|C14 [framework options]
#include "common/cases.h"
#include "hist.h"

using namespace vc;

namespace hist {
template <>
struct Traits<Q> {
  static Q make(int n, int d) { return vq::frac(n, d < 1 ? 1 : d); }
  static bool same(const Q &a, const Q &b) { return a == b; }
  static constexpr bool exact_arith = true;
};
}  // namespace hist
#include "hist_parts.h"
HIST_INSTANTIATE(Q)

#if VERIF_PART == -1 || VERIF_PART == 0
struct OpC {
  i64 code = 0, a = 0, b = 0, c = 0, d = 0;
  template <class A>
  void io(A &x) { x("code", code); x("a", a); x("b", b); x("c", c); x("d", d); }
};
struct HistC {
  std::vector<OpC> ops;
  template <class A>
  void io(A &x) { x("ops", ops); }
};

static int g_focus = hist::F_ALL;
static const char *g_prop = "C10";

static void check_history(const HistC &h, vf::Obs &o) {
  hist::Interp<Q> in;
  in.focus = g_focus;
  for (const auto &oc : h.ops) {
    hist::Op op;
    op.code = (int)(((oc.code % hist::CODE_COUNT) + hist::CODE_COUNT) % hist::CODE_COUNT);
    op.a = (int)oc.a; op.b = (int)oc.b; op.c = (int)oc.c; op.d = (int)oc.d;
    in.step(op);
    if (in.failed) break;
  }
  for (int code : in.executed) o.cls(std::string("op:") + hist::code_name(code));
  o.cls("length:" + std::to_string(std::min<size_t>(h.ops.size() / 10 * 10, 200)) + "+");
  if (in.moves_seen) o.cls("has-move");
  if (in.throws_seen) o.cls("has-throwing-call");
  bool nt = (g_focus == hist::F_C02 || g_focus == hist::F_C15) ? (in.moves_seen + in.throws_seen > 0 || in.nt_c14) : g_focus == hist::F_C08 ? in.nt_c08 : g_focus == hist::F_C09 ? in.nt_c09 : g_focus == hist::F_C10 ? in.nt_c10 : g_focus == hist::F_C14 ? in.nt_c14 : (in.nt_c09 || in.nt_c10 || in.nt_c14);
  o.nt(nt);
  if (in.failed) o.fail(in.why);
}

static rc::Gen<OpC> gen_op() {
  using namespace hist;
  return rc::gen::exec([] {
    OpC o;
    o.code = *rc::gen::weightedElement<i64>({
        {4, G_NEW}, {1, G_NEW_INVALID}, {1, G_COPY}, {1, G_ASSIGN}, {2, G_EQUAL_DISTINCT}, {1, G_ACCESS},
        {6, S_NEW}, {1, S_NEW_INVALID}, {1, S_EMPTY}, {2, S_WHOLE}, {1, S_COPY}, {2, S_MOVE}, {1, S_ASSIGN}, {1, S_MOVE_ASSIGN}, {1, S_SELF_ASSIGN}, {2, S_UNION}, {2, S_INTERSECT}, {3, S_ACCESS}, {2, S_CONVERT},
        {10, P_NEW}, {1, P_NEW_BADCOUNT}, {1, P_EMPTY}, {3, P_COPY}, {3, P_MOVE}, {2, P_ASSIGN}, {2, P_MOVE_ASSIGN}, {1, P_SELF_ASSIGN}, {1, P_SELF_MOVE_ASSIGN}, {3, P_CROSS_ASSIGN},
        {2, P_SCALE}, {1, P_DIV}, {1, P_NEG}, {3, P_ISCALE}, {2, P_IDIV}, {4, P_ADD}, {3, P_SUB}, {4, P_MUL}, {5, P_IADD}, {4, P_ISUB}, {3, P_LINCOMB}, {1, P_LINCOMB_BAD},
        {4, P_APPLY}, {6, P_APPLY_SPLINEOP}, {2, P_LINFORM}, {3, P_BILFORM}, {4, P_EVAL}, {1, P_PRED}, {1, P_FRONTBACK}, {3, P_MOVE_REUSE}, {6, P_EVAL_MUTATE}, {3, P_INTERPOLATE}, {4, P_REGRID}, {2, P_SWAP}, {1, S_SELF_MOVE}});
    o.a = pick(0, 63); o.b = pick(0, 63); o.c = pick(0, 255); o.d = pick(0, 63);
    return o;
  });
}

int main(int argc, char **argv) {
  for (int i = 1; i + 1 < argc; i++)
    if (std::string(argv[i]) == "--focus") {
      std::string f = argv[i + 1];
      g_focus = f == "C09" ? hist::F_C09 : f == "C10" ? hist::F_C10 : f == "C14" ? hist::F_C14 : f == "C02" ? hist::F_C02 : f == "C15" ? hist::F_C15 : f == "C08" ? hist::F_C08 : hist::F_ALL;
      g_prop = f == "C09" ? "C09" : f == "C14" ? "C14" : f == "C02" ? "C02" : f == "C15" ? "C15" : f == "C08" ? "C08" : "C10";
      for (int j = i; j + 2 < argc; j++) argv[j] = argv[j + 2];
      argc -= 2;
      break;
    }
  auto gen = rc::gen::map(rc::gen::container<std::vector<OpC>>(gen_op()), [](std::vector<OpC> v) {
    HistC h;
    // a short populating prefix so that most histories reach the spline operations; shrinking can still drop it
    h.ops = std::move(v);
    return h;
  });
  auto gen_populated = rc::gen::exec([] {
    HistC h;
    using namespace hist;
    int ng = (int)pick(1, 2);
    for (int g = 0; g < ng; g++) h.ops.push_back(OpC{G_NEW, pick(0, 63), pick(0, 63), pick(0, 63), pick(0, 3)});
    if (chance(30)) h.ops.push_back(OpC{G_EQUAL_DISTINCT, pick(0, 3), 0, 0, 0});
    int nsup = (int)pick(2, 4);
    for (int s = 0; s < nsup; s++) h.ops.push_back(OpC{S_NEW, pick(0, 3), pick(0, 63), pick(0, 63), 0});
    int nsp = (int)pick(2, 5);
    for (int s = 0; s < nsp; s++) h.ops.push_back(OpC{P_NEW, pick(0, 3), pick(0, 7), pick(0, 255), 0});
    int len = (int)pick(1, 40);
    for (int i = 0; i < len; i++) h.ops.push_back(*gen_op());
    return h;
  });
  vf::add_sub<HistC>("history-free", 400, gen, check_history);
  vf::add_sub<HistC>("history-populated", 1200, gen_populated, check_history);
  return vf::main_impl(argc, argv, g_prop);
}
#endif
