// C11 -- malformed input is rejected at the boundary with the library's
// exception; valid input is never refused. Oracle: independent validity
// predicates transcribed from the property statement (accepted IFF valid).
#define BSPLINE_INTERPOLATION_USE_EIGEN
#include "common/cases.h"
#ifndef VERIF_PART
#define VERIF_PART -1
#endif
#define PART(k) (VERIF_PART == -1 || VERIF_PART == (k))
#if PART(1)
#include <bspline/interpolation/interpolation.h>
#include "common/qsolver.h"
#endif
#include <cfloat>
#include <list>

using namespace vc;
using bspline::exceptions::BSplineException;
using Grd = bspline::support::Grid<double>;
using Sup = bspline::support::Support<double>;

// outcome of a call: 0 accepted, 1 refused with BSplineException, 2 other exception
template <class F>
static int outcome(F &&f, std::string &what) {
  try {
    f();
    return 0;
  } catch (const BSplineException &e) {
    what = e.what();
    return 1;
  } catch (const std::exception &e) {
    what = std::string("foreign exception: ") + e.what();
    return 2;
  } catch (...) {
    what = "foreign non-std exception";
    return 2;
  }
}
#define EXPECT_IFF(o, valid, res, what, label)                                                                      \
  do {                                                                                                              \
    VCHECK(o, (res) != 2, label << ": refused with something other than the library's exception: " << what);        \
    VCHECK(o, ((res) == 0) == (valid), label << (valid ? ": valid input was refused: " + what : ": invalid input was accepted")); \
  } while (0)

static double val(i64 code) {
  switch (code) {
    case 1000: return std::numeric_limits<double>::quiet_NaN();
    case 1001: return std::numeric_limits<double>::infinity();
    case 1002: return -std::numeric_limits<double>::infinity();
    case 1003: return -0.0;
    case 1004: return std::numeric_limits<double>::denorm_min();
    case 1005: return -std::numeric_limits<double>::denorm_min();
    case 1006: return DBL_MAX;
    case 1007: return -DBL_MAX;
    case 1008: return DBL_MIN;
    case 1009: return std::nextafter(1.0, 2.0);
    case 1010: return 1.0;
    default: return (double)code / 4.0;
  }
}
static std::vector<double> vals(const std::vector<i64> &codes) {
  std::vector<double> v;
  for (auto c : codes) v.push_back(val(c));
  return v;
}
static bool strictly_increasing(const std::vector<double> &v) {
  for (size_t i = 0; i + 1 < v.size(); i++)
    if (!(v[i] < v[i + 1])) return false;
  return true;
}
static bool has_nan(const std::vector<double> &v) {
  for (double x : v) if (x != x) return true;
  return false;
}

// ------------------------------------------------------------------ Grid
struct SeqC {
  std::vector<i64> code;
  i64 ctor = 0;  // 0 vector, 1 iterator pair (vector), 2 iterator pair (list), 3 initializer_list, 4 shared_ptr, 5 null shared_ptr, 6-9 iterator pair over another element type
  template <class A>
  void io(A &a) { a("code", code); a("ctor", ctor); }
};
static void check_grid(const SeqC &c, vf::Obs &o) {
  std::vector<double> v = vals(c.code);
  bool valid = v.size() >= 2 && strictly_increasing(v);
  std::string what;
  int res;
  i64 ctor = c.ctor;
  if (ctor == 3 && v.size() > 6) ctor = 0;
  switch (ctor) {
    case 1:
      // iterator pair over a vector: mutable iterators, const_iterators of a const vector, cbegin / cend, raw pointers -
      // four different static argument types for the same range (overload resolution must not matter)
      switch (c.code.size() % 4) {
        case 0: res = outcome([&] { Grd g(v.begin(), v.end()); }, what); break;
        case 1: { const std::vector<double> &cv = v; res = outcome([&] { Grd g(cv.begin(), cv.end()); }, what); break; }
        case 2: res = outcome([&] { Grd g(v.cbegin(), v.cend()); }, what); break;
        default: res = outcome([&] { const double *b = v.data(); Grd g(b, b + v.size()); }, what); break;
      }
      break;
    case 2: { std::list<double> l(v.begin(), v.end()); res = outcome([&] { Grd g(l.begin(), l.end()); }, what); break; }
    case 3:
      res = outcome([&] {
        switch (v.size()) {
          case 0: { Grd g(std::initializer_list<double>{}); break; }
          case 1: { Grd g(std::initializer_list<double>{v[0]}); break; }
          case 2: { Grd g{v[0], v[1]}; break; }
          case 3: { Grd g{v[0], v[1], v[2]}; break; }
          case 4: { Grd g{v[0], v[1], v[2], v[3]}; break; }
          case 5: { Grd g{v[0], v[1], v[2], v[3], v[4]}; break; }
          default: { Grd g{v[0], v[1], v[2], v[3], v[4], v[5]}; break; }
        }
      }, what);
      if (v.size() > 6) valid = strictly_increasing(std::vector<double>(v.begin(), v.begin() + 6));
      break;
    case 4: res = outcome([&] { Grd g(std::make_shared<const std::vector<double>>(v)); }, what); break;
    case 6: case 7: case 8: case 9: {
      // iterator pair over a range whose ELEMENT TYPE differs from the grid's scalar type: validity is a statement about the
      // points the grid stores, i.e. about the values AFTER conversion (two distinct source values may collapse)
      std::string inv;
      auto judge = [&](auto tag, const auto &src) {
        using T = decltype(tag);
        std::vector<T> conv;
        for (const auto &x : src) conv.push_back(static_cast<T>(x));
        bool ok = conv.size() >= 2;
        for (size_t i = 0; i + 1 < conv.size(); i++) if (!(conv[i] < conv[i + 1])) ok = false;
        valid = ok;
        res = outcome([&] {
          bspline::support::Grid<T> g(src.begin(), src.end());
          inv = grid_invariant(g);
          for (size_t i = 0; i < g.size() && i < conv.size(); i++) if (!(g[i] == conv[i])) inv = "stored point " + std::to_string(i) + " is not the converted source value";
        }, what);
      };
      if (ctor == 6) {         // double -> Grid<float> (narrowing: nextafter(1) and 1 collapse, denormals flush to 0)
        std::vector<double> src;
        for (double x : v) src.push_back(std::isfinite(x) && std::fabs(x) > 1e30 ? std::copysign(1e30, x) : x);
        judge(float{}, src);
      } else if (ctor == 7) {  // long double -> Grid<double>: equal neighbours of the double sequence are made distinct in the source
        std::vector<long double> src;
        for (size_t i = 0; i < v.size(); i++) src.push_back((long double)v[i] + (std::isfinite(v[i]) ? (long double)i * 0x1p-62L * std::max(1.0L, std::fabs((long double)v[i])) : 0.0L));
        judge(double{}, src);
      } else if (ctor == 8) {  // float -> Grid<double> (widening, through a std::list)
        std::list<float> src;
        for (double x : v) src.push_back(std::isfinite(x) && std::fabs(x) > 1e30 ? (float)std::copysign(1e30, x) : (float)x);
        judge(double{}, src);
      } else {                 // double -> Grid<long> (truncation: 0.25 and 0.75 collapse)
        std::vector<double> src;
        for (double x : v) src.push_back(x == x && std::fabs(x) < 1e15 ? x : 0.0);
        judge(long{}, src);
      }
      o.cls("ctor:" + std::to_string(ctor)); o.cls(valid ? "valid" : "invalid");
      o.nt(true);
      EXPECT_IFF(o, valid, res, what, "Grid construction from an iterator pair over another element type (route " << ctor << ", " << v.size() << " points)");
      if (res == 0) VCHECK(o, inv.empty(), "accepted grid violates its invariant: " << inv);
      return;
    }
    case 5: valid = false; res = outcome([&] { Grd g(std::shared_ptr<const std::vector<double>>{}); }, what); break;
    default: res = outcome([&] { Grd g(v); }, what);
  }
  o.cls("ctor:" + std::to_string(ctor));
  o.cls(valid ? "valid" : "invalid");
  if (has_nan(v)) o.cls("has-NaN");
  // non-trivial: invalid with exactly one defect, or valid at the boundary n == 2
  size_t defects = 0;
  for (size_t i = 0; i + 1 < v.size(); i++) if (!(v[i] < v[i + 1])) defects++;
  o.nt((!valid && (defects == 1 || v.size() < 2)) || (valid && v.size() == 2) || (valid && c.code.size() > 0 && *std::max_element(c.code.begin(), c.code.end()) >= 1000));
  EXPECT_IFF(o, valid, res, what, "Grid construction from " << v.size() << " points");
  if (res == 0 && ctor != 5) {
    Grd g(v);
    VCHECK(o, grid_invariant(g).empty(), "accepted grid violates its invariant: " << grid_invariant(g));
  }
}

// --------------------------------------------------------------- Support
struct WinC2 {
  i64 n = 2, s = 0, e = 0;  // indices are codes: >= 0 literal; -k = SIZE_MAX-(k-1)
  template <class A>
  void io(A &a) { a("n", n); a("s", s); a("e", e); }
};
static size_t idx(i64 code) { return code >= 0 ? (size_t)code : ~size_t(0) - (size_t)(-code - 1); }
static Grd simple_grid(size_t n) {
  std::vector<double> v(n);
  for (size_t i = 0; i < n; i++) v[i] = (double)i;
  return Grd(v);
}
static void check_support(const WinC2 &c, vf::Obs &o) {
  size_t n = (size_t)std::max<i64>(2, c.n);
  Grd g = simple_grid(n);
  size_t s = idx(c.s), e = idx(c.e);
  bool valid = (s == 0 && e == 0) || (s < e && e <= n);
  std::string what;
  int res = outcome([&] { Sup x(g, s, e); }, what);
  o.cls(valid ? "valid" : "invalid");
  o.nt(!valid || (s == 0 && e == 0) || e == n || e == s + 1);
  EXPECT_IFF(o, valid, res, what, "Support(grid of " << n << ", " << s << ", " << e << ")");
  if (res == 0) {
    Sup x(g, s, e);
    VCHECK(o, support_invariant(x).empty(), "accepted support violates its invariant");
    VCHECK(o, x.getStartIndex() == s && x.getEndIndex() == e, "accepted support reports the window [" << x.getStartIndex() << "," << x.getEndIndex() << ") instead of the one it was given");
  }
}

// checked accessors document "throws if out of bounds": accepted IFF the index is inside the view
static void check_access(const WinC2 &c, vf::Obs &o) {
  size_t n = (size_t)std::max<i64>(2, c.n);
  Grd g = simple_grid(n);
  size_t s = (size_t)std::max<i64>(0, std::min<i64>(c.s >= 0 ? c.s : 0, (i64)n - 1)), e = s + 1 + (size_t)((c.e >= 0 ? c.e : -c.e) % (i64)(n - s));
  Sup x(g, s, e);
  o.nt(true);
  for (i64 code : {c.s, c.e, (i64)-1, (i64)-2, -(i64)s, -(i64)s - 1, (i64)(e - s), (i64)(e - s) - 1, (i64)0}) {
    size_t i = idx(code);
    bool valid = i < e - s;
    std::string what;
    double got = -1;
    int r1 = outcome([&] { got = x.at(i); }, what);
    EXPECT_IFF(o, valid, r1, what, "Support[" << s << "," << e << ").at(" << i << ")");
    if (valid) VCHECK(o, got == (double)(s + i), "Support::at returned the wrong grid point");
    size_t abs_i = 0;
    int r2 = outcome([&] { abs_i = x.absoluteFromRelative(i); }, what);
    EXPECT_IFF(o, valid, r2, what, "Support[" << s << "," << e << ").absoluteFromRelative(" << i << ")");
    if (valid) VCHECK(o, abs_i == s + i, "absoluteFromRelative returned the wrong index");
    int r3 = outcome([&] { got = g.at(i); }, what);
    EXPECT_IFF(o, i < n, r3, what, "Grid::at(" << i << ")");
  }
}

// ---------------------------------------------------------------- Spline
struct SplC {
  i64 n = 2, s = 0, e = 0, count = 0, order = 0;
  template <class A>
  void io(A &a) { a("n", n); a("s", s); a("e", e); a("count", count); a("order", order); }
};
static void check_spline(const SplC &c, vf::Obs &o) {
  size_t n = (size_t)std::max<i64>(2, c.n);
  Grd g = simple_grid(n);
  i64 s = std::max<i64>(0, std::min<i64>(c.s, (i64)n)), e = std::max<i64>(s, std::min<i64>(c.e, (i64)n));
  if (s == e) s = e = 0;
  Sup sup(g, (size_t)s, (size_t)e);
  size_t nint = e - s >= 2 ? (size_t)(e - s - 1) : 0;
  size_t count = (size_t)std::max<i64>(0, c.count);
  bool valid = count == nint;
  std::string what;
  int res = 2;
  with_order<4>((size_t)std::min<i64>(std::max<i64>(c.order, 0), 4), [&](auto O) {
    constexpr size_t ord = decltype(O)::value;
    std::vector<std::array<double, ord + 1>> co(count);
    for (auto &a : co) a.fill(1.5);
    res = outcome([&] { bspline::Spline<double, ord> sp(sup, co); VCHECK(o, spline_invariant(sp).empty(), "accepted spline violates its invariant"); }, what);
    if (res == 0 && valid) {
      // assignment of valid data through the cross-order path must be accepted as well
      if constexpr (ord >= 1) {
        std::vector<std::array<double, ord>> lo(count);
        for (auto &a : lo) a.fill(0.5);
        bspline::Spline<double, ord - 1> low(sup, lo);
        bspline::Spline<double, ord> hi(g);
        std::string w2;
        int r2 = outcome([&] { hi = low; }, w2);
        VCHECK(o, r2 == 0, "cross-order assignment of a valid spline refused: " << w2);
      }
    }
  });
  o.cls(valid ? "valid" : "invalid");
  o.cls(e - s >= 2 ? "win:intervals" : e - s == 1 ? "win:point" : "win:empty");
  o.nt(!valid ? (count + 1 == nint || count == nint + 1) : true);
  EXPECT_IFF(o, valid, res, what, "Spline(window [" << s << "," << e << "), " << count << " coefficient arrays)");
}

// ------------------------------------------------------------- generator
struct KnotVC {
  std::vector<i64> code;
  i64 p = 0, route = 0, gridmut = 0;  // route 0 ctor(knots)+generate<p>, 1 ctor(knots, grid)+generate<p>, 2 generateBSplines<p>(knots)
                                      // gridmut 0 matching (separately built), 1 extra point at the back, 2 first point dropped, 3 a point moved, 4 extra point in front, 5 last point dropped
  template <class A>
  void io(A &a) { a("code", code); a("p", p); a("route", route); a("gridmut", gridmut); }
};
static void check_generator(const KnotVC &c, vf::Obs &o) {
  std::vector<double> k = vals(c.code);
  bool nondecr = !has_nan(k);
  for (size_t i = 0; i + 1 < k.size() && nondecr; i++) if (!(k[i] <= k[i + 1])) nondecr = false;
  std::vector<double> u;
  for (double x : k) if (u.empty() || !(u.back() == x)) u.push_back(x);
  bool knots_ok = nondecr && u.size() >= 2;
  size_t p = (size_t)std::min<i64>(std::max<i64>(c.p, 0), 4);
  bool count_ok = k.size() >= p + 1;
  std::string what;
  int res = 2;
  bool valid = knots_ok && count_ok;
  i64 route = c.route;
  bool grid_ok = true;
  std::vector<double> gp = u;
  if (route == 1) {
    // the caller-supplied grid must itself be a valid Grid object; build it from the de-duplicated knots when those are
    // usable, otherwise from a fixed grid (then it cannot match)
    if (!(knots_ok && strictly_increasing(u))) { gp = {0.0, 1.0, 2.0}; grid_ok = false; }
    switch (c.gridmut) {
      case 1: gp.push_back(gp.back() + 1.0); grid_ok = false; break;
      case 2: if (gp.size() >= 3) { gp.erase(gp.begin()); grid_ok = false; } break;
      case 3: if (gp.size() >= 2 && gp[gp.size() - 1] - gp[gp.size() - 2] > 0.25 && std::isfinite(gp.back())) { gp.back() -= 0.125; grid_ok = false; } break;
      case 4: if (std::isfinite(gp.front())) { gp.insert(gp.begin(), gp.front() - 1.0); grid_ok = false; } break;
      case 5: if (gp.size() >= 3) { gp.pop_back(); grid_ok = false; } break;   // the knots reproduce the whole grid and then continue
      default: break;
    }
    if (!strictly_increasing(gp) || gp.size() < 2) { o.discard("harness could not build the supplied grid"); return; }
    grid_ok = knots_ok && gp == u;  // judged on the values actually passed (a mutation may be absorbed by rounding)
    valid = valid && grid_ok;
  }
  with_order<4>(p, [&](auto P) {
    constexpr size_t ord = decltype(P)::value;
    res = outcome([&] {
      if (route == 2) {
        auto r = bspline::generateBSplines<ord>(k);
        (void)r;
      } else if (route == 1) {
        Grd g(gp);
        bspline::BSplineGenerator<double> gen(k, g);
        auto r = gen.template generateBSplines<ord>();
        (void)r;
      } else {
        bspline::BSplineGenerator<double> gen(k);
        auto r = gen.template generateBSplines<ord>();
        (void)r;
      }
    }, what);
  });
  o.cls("route:" + std::to_string(route));
  o.cls(valid ? "valid" : "invalid");
  if (!knots_ok) o.cls("bad-knots"); else if (!count_ok) o.cls("too-few-knots"); else if (!grid_ok) o.cls("non-matching-grid");
  if (has_nan(k)) o.cls("has-NaN");
  o.nt(!valid || k.size() == p + 1 || u.size() == 2);
  EXPECT_IFF(o, valid, res, what, "B-spline generation (route " << route << ", order " << p << ", " << k.size() << " knots)");
}

// ------------------------------------------------------- linearCombination
struct LinCC {
  i64 nc = 0, ns = 0, overload = 0, order = 0, members = 0;  // members: 0 ordinary, 1 all empty, 2 all point-like, 3 first empty, 4 last empty, 5 mixed empty/point-like
  template <class A>
  void io(A &a) { a("nc", nc); a("ns", ns); a("overload", overload); a("order", order); a("members", members); }
};
static void check_lincomb(const LinCC &c, vf::Obs &o) {
  Grd g = simple_grid(5);
  size_t nc = (size_t)std::max<i64>(0, c.nc), ns = (size_t)std::max<i64>(0, c.ns);
  bool valid = nc == ns && nc >= 1;
  std::string what;
  int res = 2;
  with_order<2>((size_t)std::min<i64>(std::max<i64>(c.order, 0), 2), [&](auto O) {
    constexpr size_t ord = decltype(O)::value;
    std::vector<bspline::Spline<double, ord>> sp;
    for (size_t i = 0; i < ns; i++) {
      size_t s = i % 3, e = s + 2 + (i % 2);
      bool empty = c.members == 1 || (c.members == 3 && i == 0) || (c.members == 4 && i + 1 == ns) || (c.members == 5 && i % 2 == 0);
      bool point = c.members == 2 || (c.members == 5 && i % 2 == 1);
      if (empty) { sp.emplace_back(g); continue; }                     // interval-free members are valid members
      if (point) { sp.emplace_back(Sup(g, s + 1, s + 2), std::vector<std::array<double, ord + 1>>{}); continue; }
      std::vector<std::array<double, ord + 1>> co(e - s - 1);
      for (auto &a : co) a.fill(1.0 + (double)i);
      sp.emplace_back(Sup(g, s, e), co);
    }
    std::vector<double> cf(nc, 2.0);
    if (c.overload == 0) res = outcome([&] { auto r = bspline::linearCombination(cf, sp); (void)r; }, what);
    else if (c.overload == 1) res = outcome([&] { auto r = bspline::linearCombination(cf.begin(), cf.end(), sp.begin(), sp.end()); (void)r; }, what);
    else {
      std::list<double> lc(cf.begin(), cf.end());
      res = outcome([&] { auto r = bspline::linearCombination(lc, sp); (void)r; }, what);
    }
  });
  o.cls(valid ? "valid" : "invalid");
  o.cls("members:" + std::to_string(c.members));
  o.nt(true);
  EXPECT_IFF(o, valid, res, what, "linearCombination(" << nc << " coefficients, " << ns << " splines, member kind " << c.members << ")");
}

// ----------------------------------------------------------- interpolation
struct IntC {
  i64 n = 4, ws = 0, we = 0, ny = 0, order = 1, solver = 0;
  std::vector<i64> bnode, bder;
  i64 use_default = 1;
  template <class A>
  void io(A &a) { a("n", n); a("ws", ws); a("we", we); a("ny", ny); a("order", order); a("solver", solver); a("bnode", bnode); a("bder", bder); a("use_default", use_default); }
};
void check_interp(const IntC &c, vf::Obs &o);
#if PART(1)
template <class T, size_t order>
static int interp_call(const IntC &c, std::string &what) {
  using namespace bspline::interpolation;
  size_t n = (size_t)std::max<i64>(2, c.n);
  std::vector<T> pts;
  for (size_t i = 0; i < n; i++) pts.push_back(mk<T>((i64)(i * i + i), 2));
  bspline::support::Grid<T> g(pts);
  i64 s = std::max<i64>(0, std::min<i64>(c.ws, (i64)n)), e = std::max<i64>(s, std::min<i64>(c.we, (i64)n));
  if (s == e) s = e = 0;
  bspline::support::Support<T> x(g, (size_t)s, (size_t)e);
  std::vector<T> y;
  for (i64 i = 0; i < c.ny; i++) y.push_back(mk<T>(i * 3 % 5 - 1, 1));
  std::array<Boundary<T>, order - 1> bnd = internal::defaultBoundaries<T, order>();
  if (!c.use_default)
    for (size_t i = 0; i + 1 < order; i++) {
      bnd[i].node = (i < c.bnode.size() && c.bnode[i]) ? Node::LAST : Node::FIRST;
      bnd[i].derivative = i < c.bder.size() ? (size_t)std::max<i64>(0, c.bder[i]) : 1;
      bnd[i].value = mk<T>((i64)i, 1);
    }
  return outcome([&] {
    try {
      if constexpr (std::is_same_v<T, Q>) {
        auto r = interpolate<Q, order, QSolver>(x, y, bnd);
        (void)r;
      } else {
        if (c.use_default) { auto r = interpolateUsingEigen<T, order>(x, y); (void)r; }
        else { auto r = interpolateUsingEigen<T, order>(x, y, bnd); (void)r; }
      }
    } catch (const Singular &) {
      // argument validation passed; unsolvable problems are outside C11 (DESIGN 6.4)
    }
  }, what);
}
void check_interp(const IntC &c, vf::Obs &o) {
  size_t order = (size_t)std::min<i64>(std::max<i64>(c.order, 1), 4);
  size_t n = (size_t)std::max<i64>(2, c.n);
  i64 s = std::max<i64>(0, std::min<i64>(c.ws, (i64)n)), e = std::max<i64>(s, std::min<i64>(c.we, (i64)n));
  size_t nx = (size_t)(e - s);
  bool valid = nx == (size_t)std::max<i64>(0, c.ny) && nx >= 2;
  bool bvalid = true;
  if (!c.use_default)
    for (size_t i = 0; i + 1 < order; i++) {
      i64 d = i < c.bder.size() ? std::max<i64>(0, c.bder[i]) : 1;
      if (d < 1 || d > (i64)order) bvalid = false;
    }
  std::string what;
  int res = 2;
  with_order<3>(order - 1, [&](auto O) {
    constexpr size_t ord = decltype(O)::value + 1;
    if (c.solver == 0) res = interp_call<Q, ord>(c, what);
    else res = interp_call<double, ord>(c, what);
  });
  o.cls(valid && bvalid ? "valid" : "invalid");
  o.cls(c.solver == 0 ? "solver:exact" : "solver:eigen");
  if (!bvalid) o.cls("bad-boundary-derivative");
  if (!valid) o.cls(nx < 2 ? "too-few-nodes" : "size-mismatch");
  o.nt(true);
  EXPECT_IFF(o, (valid && bvalid), res, what, "interpolate(order " << order << ", " << nx << " abscissae, " << c.ny << " ordinates)");
}
#endif

#if PART(0)
static std::vector<i64> gen_codes(int maxlen, bool allow_equal_base) {
  int len = (int)pick(0, maxlen);
  std::vector<i64> v;
  i64 x = pick(-20, 20);
  for (int i = 0; i < len; i++) {
    v.push_back(x);
    x += allow_equal_base && chance(30) ? 0 : pick(1, 6);
  }
  int mut = (int)pick(0, 11);
  auto pos = [&]() { return (size_t)pick(0, (i64)v.size() - 1); };
  auto ins = [&](i64 code) { size_t p = (size_t)pick(0, (i64)v.size()); v.insert(v.begin() + (long)p, code); };
  switch (mut) {
    case 0: case 1: case 2: case 3: break;                                    // nothing
    case 4: if (v.size() >= 2) { size_t a = pos(), b = pos(); std::swap(v[a], v[b]); } break;   // swap two
    case 5: if (!v.empty()) { size_t a = pos(); v.insert(v.begin() + (long)a, v[a]); } break;    // duplicate one
    case 6: ins(1000); break;                                                 // NaN anywhere
    case 7: if (chance(50)) v.push_back(1001); else v.insert(v.begin(), 1002); break;  // +-inf at the proper end (valid)
    case 8: ins(chance(50) ? 1001 : 1002); break;                             // +-inf anywhere
    case 9: { v.clear(); bool a = chance(50); v = a ? std::vector<i64>{-4, 1003, 0, 4} : std::vector<i64>{-4, 0, 1003, 4}; if (chance(30)) v.erase(v.begin() + 1); break; }  // +0/-0 pair
    case 10: { v = {-4, 1005, 0, 1004, 1008, 4}; if (chance(50)) std::swap(v[3], v[4]); break; }  // denormal gaps
    default: { v = {1007, -4, 1010, 1009, 1006}; if (chance(30)) std::swap(v[2], v[3]); break; }  // extremes, 1 and nextafter(1)
  }
  return v;
}
int main(int argc, char **argv) {
  vf::add_sub<SeqC>("grid", 2500, rc::gen::exec([] { SeqC c; c.code = gen_codes(8, false); c.ctor = pick(0, 9); return c; }), check_grid);
  vf::add_sub<WinC2>("support", 1500, rc::gen::exec([] {
    WinC2 c; c.n = pick(2, 7);
    // index classes: small, around SIZE_MAX (negative codes), and values whose LOW bits look like a valid index: 2^32 + k,
    // 2^33 + k, 2^16 * 2^32 + k, 2^63 - 1 - k (an index type narrower than size_t would reduce them to k)
    auto ix = [&]() -> i64 {
      int r = (int)pick(0, 99);
      if (r < 70) return pick(0, c.n + 2);
      if (r < 82) return -pick(1, c.n + 3);
      i64 k = pick(0, c.n + 1);
      switch ((int)pick(0, 4)) { case 0: return ((i64)1 << 32) + k; case 1: return ((i64)1 << 33) + k; case 2: return ((i64)1 << 48) + k; case 3: return ((i64)1 << 16) + k; default: return (i64)0x7fffffffffffffffLL - k; }
    };
    c.s = ix(); c.e = ix();
    if (chance(30)) { c.s = pick(0, c.n - 1); c.e = pick(c.s + 1, c.n); }
    return c; }), check_support);
  vf::add_sub<WinC2>("checked-accessors", 800, rc::gen::exec([] {
    WinC2 c; c.n = pick(2, 9);
    auto ix = [&]() -> i64 { return chance(60) ? pick(0, c.n + 2) : -pick(1, c.n + 3); };
    c.s = chance(70) ? pick(0, c.n - 1) : ix(); c.e = ix();
    return c; }), check_access);
  vf::add_sub<SplC>("spline", 1500, rc::gen::exec([] {
    SplC c; c.n = pick(2, 7); c.s = pick(0, c.n - 1); c.e = pick(c.s, c.n); c.order = pick(0, 4);
    i64 nint = c.e - c.s >= 2 ? c.e - c.s - 1 : 0;
    c.count = chance(45) ? nint : pick(0, c.n + 1);
    return c; }), check_spline);
  vf::add_sub<KnotVC>("generator", 2500, rc::gen::exec([] {
    KnotVC c; c.p = pick(0, 4); c.code = gen_codes((int)c.p + 4, true); c.route = pick(0, 2); c.gridmut = chance(50) ? 0 : pick(1, 5);
    return c; }), check_generator);
  vf::add_sub<LinCC>("linear-combination", 300, rc::gen::exec([] { LinCC c; c.nc = pick(0, 4); c.ns = pick(0, 4); if (chance(40)) c.nc = c.ns; c.overload = pick(0, 2); c.order = pick(0, 2); c.members = chance(50) ? 0 : pick(1, 5); return c; }), check_lincomb);
  vf::add_sub<IntC>("interpolation", 1200, rc::gen::exec([] {
    IntC c; c.n = pick(2, 6); c.order = pick(1, 4); c.solver = chance(70) ? 0 : 1;
    c.ws = pick(0, c.n - 1); c.we = pick(c.ws, std::min<i64>(c.n, c.ws + 5));
    c.ny = chance(55) ? c.we - c.ws : pick(0, 5);
    c.use_default = chance(40);
    for (i64 i = 0; i + 1 < c.order; i++) { c.bnode.push_back(pick(0, 1)); c.bder.push_back(chance(70) ? pick(1, c.order) : pick(0, c.order + 2)); }
    return c; }), check_interp);
  return vf::main_impl(argc, argv, "C11");
}
#endif
