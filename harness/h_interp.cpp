// C12 -- interpolation reproduces the data with the promised smoothness and
// boundary conditions. Oracle A: exact (Q + Gaussian elimination): every
// condition holds exactly. Oracle B: bundled Eigen solver in double / long
// double: every condition's residual, evaluated exactly from the returned
// coefficients, stays below K*eps*(||M||_F ||x||_2 + ||b||_2).
#define BSPLINE_INTERPOLATION_USE_EIGEN
#include "common/cases.h"
#include "common/qsolver.h"

using namespace vc;
using namespace bspline::interpolation;

struct IntpC {
  GridC g;
  i64 ws = 0, we = 2, order = 1, solver = 0, use_default = 1, yden = 1;
  std::vector<i64> y, bnode, bder, bval;
  template <class A>
  void io(A &a) {
    a("g", g); a("ws", ws); a("we", we); a("order", order); a("solver", solver); a("use_default", use_default); a("yden", yden);
    a("y", y); a("bnode", bnode); a("bder", bder); a("bval", bval);
  }
};

static double g_max_ratio = 0;
static R absr(const R &r) { return r < 0 ? R(-r) : r; }
static R fallfac(size_t k, size_t d) {  // k!/(k-d)!
  R f(1);
  for (size_t i = 0; i < d; i++) f *= R((long)(k - i));
  return f;
}

template <class T, size_t order>
static void interp_T(const IntpC &c, vf::Obs &o) {
  constexpr bool exactT = std::is_same_v<T, Q>;
  const size_t n = c.g.n();
  size_t ws = (size_t)std::max<i64>(0, std::min<i64>(c.ws, (i64)n - 2)), we = (size_t)std::max<i64>((i64)ws + 2, std::min<i64>(c.we, (i64)n));
  const size_t nn = we - ws;  // nodes
  auto grid = make_grid<T>(c.g);
  bspline::support::Support<T> x(grid, ws, we);
  std::vector<R> pts = c.g.points();
  std::vector<T> y;
  std::vector<R> yr;
  i64 yden = c.yden < 1 ? 1 : c.yden;
  for (size_t i = 0; i < nn; i++) {
    i64 v = c.y.empty() ? (i64)i : c.y[i % c.y.size()];
    y.push_back(mk<T>(v, yden));
    R r(v, yden); r.canonicalize(); yr.push_back(r);
  }
  // boundary set (admissible: derivative 1..order)
  std::array<Boundary<T>, order - 1> bnd = internal::defaultBoundaries<T, order>();
  struct BR { bool last; size_t der; R val; };
  std::vector<BR> bexp;
  if (c.use_default) {
    // the statement: lowest derivatives set to zero, alternating between first and last node
    for (size_t i = 0; i + 1 < order; i++) bexp.push_back({i % 2 == 1, i / 2 + 1, R(0)});
  } else {
    for (size_t i = 0; i + 1 < order; i++) {
      bool last = i < c.bnode.size() && c.bnode[i] != 0;
      size_t der = i < c.bder.size() ? (size_t)std::min<i64>(std::max<i64>(c.bder[i], 1), (i64)order) : 1;
      i64 bv = i < c.bval.size() ? c.bval[i] : 0;
      bnd[i].node = last ? Node::LAST : Node::FIRST;
      bnd[i].derivative = der;
      bnd[i].value = mk<T>(bv, 2);
      R r(bv, 2); r.canonicalize();
      bexp.push_back({last, der, r});
    }
  }
  o.cls("order:" + std::to_string(order));
  o.cls(std::string("solver:") + (exactT ? "exact" : Scalar<T>::name));
  o.cls(c.use_default ? "boundaries:default" : "boundaries:custom");
  o.cls(nn == 2 ? "nodes:2" : nn <= 4 ? "nodes:3-4" : "nodes:5+");
  bool subwin = !(ws == 0 && we == n);
  if (subwin) o.cls("window:strict-sub");

  // conditions as rows over the unknowns (midpoint coefficients): sum_k w_k c_{i,k} = rhs
  struct Row { std::vector<std::tuple<size_t, size_t, R>> w; R rhs; std::string what; };
  std::vector<Row> rows;
  auto xm = [&](size_t i) -> R { return R((pts[ws + i] + pts[ws + i + 1]) / 2); };
  auto deriv_row = [&](size_t interval, const R &at, size_t d, const R &sign, Row &row) {
    R dx = at - xm(interval), pw(1);
    for (size_t k = d; k <= order; k++) { row.w.push_back({interval, k, sign * fallfac(k, d) * pw}); pw *= dx; }
  };
  for (size_t i = 0; i < nn; i++) {
    if (i + 1 < nn) { Row r; deriv_row(i, pts[ws + i], 0, R(1), r); r.rhs = yr[i]; r.what = "value at node " + std::to_string(i) + " (right piece)"; rows.push_back(r); }
    if (i >= 1) { Row r; deriv_row(i - 1, pts[ws + i], 0, R(1), r); r.rhs = yr[i]; r.what = "value at node " + std::to_string(i) + " (left piece)"; rows.push_back(r); }
    if (i >= 1 && i + 1 < nn)
      for (size_t d = 1; d < order; d++) {
        Row r; deriv_row(i - 1, pts[ws + i], d, R(1), r); deriv_row(i, pts[ws + i], d, R(-1), r); r.rhs = 0;
        r.what = "continuity of derivative " + std::to_string(d) + " at interior node " + std::to_string(i);
        rows.push_back(r);
      }
  }
  for (const auto &b : bexp) {
    Row r;
    if (b.last) deriv_row(nn - 2, pts[we - 1], b.der, R(1), r); else deriv_row(0, pts[ws], b.der, R(1), r);
    r.rhs = b.val;
    r.what = std::string("boundary condition: derivative ") + std::to_string(b.der) + " at " + (b.last ? "last" : "first") + " node";
    rows.push_back(r);
  }
  // unique solvability is decided by the HARNESS's own assembly of the conditions (exact elimination), not by the
  // matrix the library builds: a library that assembles a singular system for a solvable problem must not be excused
  {
    const size_t N = rows.size();
    std::vector<std::vector<R>> A(N, std::vector<R>(N, R(0)));
    for (size_t r = 0; r < N; r++) for (const auto &[i, k, w] : rows[r].w) A[r][i * (order + 1) + k] += w;
    bool singular = false;
    for (size_t col = 0; col < N && !singular; col++) {
      size_t piv = col;
      while (piv < N && A[piv][col] == 0) piv++;
      if (piv == N) { singular = true; break; }
      std::swap(A[piv], A[col]);
      for (size_t r = col + 1; r < N; r++) {
        if (A[r][col] == 0) continue;
        R f = A[r][col] / A[col][col];
        for (size_t k2 = col; k2 < N; k2++) A[r][k2] -= f * A[col][k2];
      }
    }
    if (singular) { o.discard("singular"); return; }
  }
  bspline::support::Support<Q> xq(make_grid<Q>(c.g), ws, we);
  std::vector<Q> yq;
  for (auto &r : yr) yq.push_back(vq::make(r));
  std::array<Boundary<Q>, order - 1> bq;
  for (size_t i = 0; i + 1 < order; i++) { bq[i].node = bexp[i].last ? Node::LAST : Node::FIRST; bq[i].derivative = bexp[i].der; bq[i].value = vq::make(bexp[i].val); }
  std::optional<bspline::Spline<Q, order>> exact_sol;
  try {
    if (c.use_default) exact_sol.emplace(interpolate<Q, order, QSolver>(xq, yq));
    else exact_sol.emplace(interpolate<Q, order, QSolver>(xq, yq, bq));
  } catch (const Singular &) {
    o.fail("the linear system assembled by interpolate() is singular although the problem is uniquely solvable (the conditions of the statement, assembled independently, have full rank)");
    return;
  }
  o.nt(nn >= 3 || !c.use_default || subwin);

  // the spline under test
  std::optional<bspline::Spline<T, order>> sol;
  if constexpr (exactT) sol.emplace(*exact_sol);
  else {
    if (c.use_default) sol.emplace(interpolateUsingEigen<T, order>(x, y));
    else sol.emplace(interpolateUsingEigen<T, order>(x, y, bnd));
  }
  const auto &s = *sol;
  std::string inv = spline_invariant(s);
  VCHECK(o, inv.empty(), "invalid result: " << inv);
  VCHECK(o, s.getSupport() == x, "support of the result is not the input window");
  VCHECK(o, s.getSupport().getStartIndex() == ws && s.getSupport().getEndIndex() == we, "support indices differ from the input window");
  const auto &co = s.getCoefficients();
  for (const auto &arr : co) for (const auto &v : arr) if constexpr (!exactT) { VCHECK(o, std::isfinite((double)v), "non-finite coefficient returned"); }

  VCHECK(o, rows.size() == (order + 1) * (nn - 1), "harness: row count");
  R M2(0), x2(0), b2(0);
  for (const auto &r : rows) { for (const auto &[i, k, w] : r.w) M2 += w * w; b2 += r.rhs * r.rhs; }
  for (const auto &arr : co) for (const auto &v : arr) { R e = exact(v); x2 += e * e; }
  R eps(0);
  if constexpr (!exactT) { eps = 1; for (int b = 0; b < std::numeric_limits<T>::digits - 1; b++) eps /= 2; }
  if constexpr (!exactT) {
    // Oracle B applies to problems that are uniquely solvable NUMERICALLY: the bundled solver is a rank-revealing QR that
    // treats pivots below ~eps*n*max as zero, so for an (exactly non-singular but) numerically rank-deficient system it
    // returns a truncated solution whose residual is not at backward-error level - that is the solver's documented
    // behaviour, not a defect of the interpolation routine. Such problems (e.g. all boundary conditions of an order-5
    // spline at one end of nine nodes: an initial-value problem) are discarded and counted; the exact oracle A keeps them.
    const size_t N = rows.size();
    Eigen::Matrix<long double, Eigen::Dynamic, Eigen::Dynamic> Mld = Eigen::Matrix<long double, Eigen::Dynamic, Eigen::Dynamic>::Zero((long)N, (long)N);
    for (size_t r = 0; r < N; r++) for (const auto &[i, k, w] : rows[r].w) Mld((long)r, (long)(i * (order + 1) + k)) += (long double)w.get_d();
    Eigen::JacobiSVD<Eigen::Matrix<long double, Eigen::Dynamic, Eigen::Dynamic>> svd(Mld);
    long double smax = svd.singularValues()(0), smin = svd.singularValues()((long)N - 1);
    long double cond = smin > 0 ? smax / smin : 1e300L;
    long double limit = std::is_same_v<T, double> ? 1e9L : 1e12L;  // eps*n*cond stays below ~1e-5
    vf::metric_max(std::string("log10_max_condition_number_accepted/") + Scalar<T>::name, cond <= limit ? (double)std::log10(cond) : 0.0);
    if (cond > limit) { o.discard("numerically-rank-deficient"); return; }
  }
  double scale = std::sqrt(M2.get_d()) * std::sqrt(x2.get_d()) + std::sqrt(b2.get_d());
  for (const auto &r : rows) {
    R lhs(0);
    for (const auto &[i, k, w] : r.w) lhs += w * exact(co[i][k]);
    R res = absr(lhs - r.rhs);
    if constexpr (exactT) {
      VCHECK(o, res == 0, r.what << " violated: lhs " << rstr(lhs) << " rhs " << rstr(r.rhs));
    } else {
      double ratio = scale > 0 ? res.get_d() / (eps.get_d() * scale) : (res == 0 ? 0 : 1e300);
      if (ratio > g_max_ratio) g_max_ratio = ratio;
      vf::metric_max(std::string("max_residual_in_eps_scale_units/") + Scalar<T>::name, ratio);
      VCHECK(o, ratio <= 1024.0, r.what << ": residual " << res.get_d() << " = " << ratio << " eps*(||M||_F||x||+||b||) exceeds the backward-error level 2^10");
    }
  }
  if constexpr (exactT) {
    // independent of the row formulation: evaluate the denoted pieces in the absolute basis
    ref::Fn f = denote(s);
    for (size_t i = 0; i < nn; i++) {
      if (i + 1 < nn) VCHECK(o, ref::eval(f.piece[ws + i], pts[ws + i]) == yr[i], "piece right of node " << i << " does not take the ordinate");
      if (i >= 1) VCHECK(o, ref::eval(f.piece[ws + i - 1], pts[ws + i]) == yr[i], "piece left of node " << i << " does not take the ordinate");
      if (i >= 1 && i + 1 < nn)
        for (size_t d = 1; d < order; d++)
          VCHECK(o, ref::eval(ref::deriv(f.piece[ws + i - 1], d), pts[ws + i]) == ref::eval(ref::deriv(f.piece[ws + i], d), pts[ws + i]), "derivative " << d << " jumps at interior node " << i);
    }
    for (const auto &b : bexp) {
      R got = b.last ? ref::eval(ref::deriv(f.piece[we - 2], b.der), pts[we - 1]) : ref::eval(ref::deriv(f.piece[ws], b.der), pts[ws]);
      VCHECK(o, got == b.val, "boundary derivative " << b.der << " at " << (b.last ? "last" : "first") << " node is " << rstr(got) << " expected " << rstr(b.val));
    }
    // library evaluation at the nodes returns the ordinates
    for (size_t i = 0; i < nn; i++) VCHECK(o, vq::raw(s(vq::make(pts[ws + i]))) == yr[i], "s(x_i) != y_i at node " << i);
  }
}

#ifndef VERIF_PART
#define VERIF_PART -1
#endif
#define PART(k) (VERIF_PART == -1 || VERIF_PART == (k))
template <class T>
static void dispatch(const IntpC &c, vf::Obs &o) {
  with_order<4>((size_t)std::min<i64>(std::max<i64>(c.order, 1), 5) - 1, [&](auto O) { interp_T<T, decltype(O)::value + 1>(c, o); });
}
void intp_q(const IntpC &c, vf::Obs &o);
void intp_q_high(const IntpC &c, vf::Obs &o);
void intp_d(const IntpC &c, vf::Obs &o);
void intp_ld(const IntpC &c, vf::Obs &o);
double ratio_d(); double ratio_ld();
#if PART(0)
void intp_q(const IntpC &c, vf::Obs &o) { dispatch<Q>(c, o); }
#endif
#if PART(3)
// orders 21 and 22: the derivative-row prefactors i!/(i-d)! exceed 2^64 there
void intp_q_high(const IntpC &c, vf::Obs &o) { if (c.order % 2) interp_T<Q, 21>(c, o); else interp_T<Q, 22>(c, o); }
#endif
#if PART(1)
void intp_d(const IntpC &c, vf::Obs &o) { dispatch<double>(c, o); }
double ratio_d() { return g_max_ratio; }
#endif
#if PART(2)
void intp_ld(const IntpC &c, vf::Obs &o) { dispatch<long double>(c, o); }
double ratio_ld() { return g_max_ratio; }
#endif
#if PART(0)
static void check_interp(const IntpC &c, vf::Obs &o) {
  if (c.solver == 1) intp_d(c, o);
  else if (c.solver == 2) intp_ld(c, o);
  else intp_q(c, o);
}
static rc::Gen<IntpC> gen_case(bool exact_only) {
  return rc::gen::exec([exact_only] {
    IntpC c;
    c.solver = exact_only ? 0 : pick(1, 2);
    GridOpt go; go.dyadic = !exact_only; go.max_abs = exact_only ? 64 : 8; go.max_n = 9;
    c.g = gen_grid(go);
    i64 n = (i64)c.g.n();
    if (chance(55)) { c.ws = 0; c.we = n; } else { c.ws = pick(0, n - 2); c.we = pick(c.ws + 2, n); }
    c.order = pick(1, 5);
    c.use_default = chance(35);
    c.yden = exact_only ? one_of<i64>({1, 2, 3}) : one_of<i64>({1, 2, 4});
    for (i64 i = 0; i < c.we - c.ws; i++) c.y.push_back(pick(-9, 9));
    for (i64 i = 0; i + 1 < c.order; i++) { c.bnode.push_back(pick(0, 1)); c.bder.push_back(pick(1, c.order)); c.bval.push_back(pick(-6, 6)); }
    return c;
  });
}
int main(int argc, char **argv) {
  vf::add_sub<IntpC>("exact-solver", 1500, gen_case(true), check_interp);
  vf::add_sub<IntpC>("eigen-solver", 1500, gen_case(false), check_interp);
  vf::add_sub<IntpC>("exact-order-21-22", 12, rc::gen::exec([] {
    IntpC c;
    c.solver = 0;
    GridOpt go; go.max_abs = 4; go.min_n = 3; go.max_n = 4; go.max_gap_ratio = 3;
    c.g = gen_grid(go);
    c.ws = 0; c.we = (i64)c.g.n();
    c.order = pick(21, 22);
    c.use_default = chance(50);
    c.yden = 1;
    for (i64 i = 0; i < c.we; i++) c.y.push_back(pick(-3, 3));
    for (i64 i = 0; i + 1 < c.order; i++) { c.bnode.push_back(i % 2); c.bder.push_back(1 + i / 2 + (i % 2 == 0 && i / 2 + 12 <= c.order ? 0 : 0)); c.bval.push_back(pick(-2, 2)); }
    return c;
  }), intp_q_high);
  int rc = vf::main_impl(argc, argv, "C12");
  fprintf(stderr, "max residual ratio: double %.3g long double %.3g (bound 1024)\n", ratio_d(), ratio_ld());
  return rc;
}
#endif
