// C19 -- the scalar type needs only the documented operations.
// (1) This translation unit explicitly instantiates every class template of
//     the library with the archetype scalar Q (which offers ONLY default/copy
//     construction, explicit construction from int, + - * / with compound
//     forms, unary minus and six comparisons) and calls every member template
//     and free function template. If it does not compile, C19 is violated.
// (2) The API sweep below runs all of it on generated inputs and checks exact
//     identities ("with an exact field type all results are exact").
#include "common/cases.h"
#include "common/qsolver.h"

using namespace vc;
namespace bo = bspline::operators;
namespace bi = bspline::integration;
namespace ip = bspline::interpolation;

// ---- explicit instantiation of every class template (all non-template members)
template class bspline::support::Grid<Q>;
template class bspline::support::Support<Q>;
template class bspline::Spline<Q, 0>;
template class bspline::Spline<Q, 1>;
template class bspline::Spline<Q, 2>;
template class bspline::Spline<Q, 3>;
template class bspline::Spline<Q, 4>;
template class bspline::BSplineGenerator<Q>;
template class bspline::operators::SplineOperator<Q, 0>;
template class bspline::operators::SplineOperator<Q, 2>;
template class bspline::operators::ScalarMultiplication<Q, bo::IdentityOperator>;
template class bspline::operators::ScalarMultiplication<int, bo::Derivative<1>>;
template class bspline::operators::OperatorProduct<bo::Position<1>, bo::Derivative<1>>;
template class bspline::operators::OperatorSum<bo::Position<1>, bo::Derivative<1>, bo::AdditionOperation::ADDITION>;
template class bspline::operators::OperatorSum<bo::Position<1>, bo::Derivative<1>, bo::AdditionOperation::SUBTRACTION>;
template class bspline::integration::LinearForm<bo::Position<2>>;
template class bspline::integration::BilinearForm<bo::Position<2>, bo::Derivative<1>>;
template struct bspline::interpolation::Boundary<Q>;
template class bspline::interpolation::internal::ISolver<Q>;
static_assert(bspline::is_spline_v<bspline::Spline<Q, 3>> && !bspline::is_spline_v<Q>, "is_spline_v");
static_assert(bo::is_operator_v<bo::Derivative<2>> && !bo::is_operator_v<Q>, "is_operator_v");

struct ArchC {
  GridC g;
  SplineC a, b;
  i64 order = 0, cnum = 1, cden = 1;
  template <class A>
  void io(A &x) { x("g", g); x("a", a); x("b", b); x("order", order); x("cnum", cnum); x("cden", cden); }
};

template <size_t o>
static void sweep(const ArchC &c, vf::Obs &o_) {
  using Sp = bspline::Spline<Q, o>;
  auto grid = make_grid<Q>(c.g);
  const Sp a = make_spline<Q, o>(grid, c.a);
  const auto b = make_spline<Q, 1>(grid, c.b);
  ref::Fn fa = model_of(c.g, c.a, o), fb = model_of(c.g, c.b, 1);
  Q cq = vq::frac(c.cnum == 0 ? 1 : c.cnum, c.cden < 1 ? 1 : c.cden);
  R cr = vq::raw(cq);
  o_.cls("order:" + std::to_string(o));
  o_.nt(c.a.e - c.a.s >= 2);
  auto same = [&](const auto &s, const ref::Fn &e, const char *w) {
    long d = ref::first_diff(denote(s), e);
    VCHECK(o_, d == -1, w << ": inexact or wrong result on interval " << d << " with the exact scalar type");
  };
  // grid / support members
  (void)grid.size(); (void)grid.getData(); (void)grid.empty(); (void)grid[0]; (void)grid.at(0); (void)grid.front(); (void)grid.back();
  (void)grid.findElement(grid[1]); (void)(grid == grid); (void)(grid != grid);
  const auto &sup = a.getSupport();
  (void)sup.size(); (void)sup.empty(); (void)sup.containsIntervals(); (void)sup.relativeFromAbsolute(0); (void)sup.intervalIndexFromAbsolute(0);
  (void)sup.numberOfIntervals(); (void)sup.getGrid(); (void)sup.hasSameGrid(b.getSupport()); (void)sup.calcUnion(b.getSupport()); (void)sup.calcIntersection(b.getSupport());
  for (const auto &x : sup) (void)x;
  // spline members and free functions
  same(a + b, ref::add(fa, fb), "a+b"); same(a - b, ref::sub(fa, fb), "a-b"); same(a * b, ref::mul(fa, fb), "a*b");
  same(a * cq, ref::scale(fa, cr), "a*c"); same(cq * a, ref::scale(fa, cr), "c*a"); same(a / cq, ref::scale(fa, 1 / cr), "a/c"); same(-a, ref::scale(fa, R(-1)), "-a");
  { Sp t = a; t *= cq; t /= cq; same(t, fa, "*= /="); }
  if constexpr (o >= 1) { Sp t = a; t += b; t -= b; same(t, fa, "+= -="); Sp u(grid); u = b; same(u, fb, "cross-order ="); }
  (void)a.isZero(); (void)a.checkOverlap(b); (void)(a == a); (void)(a != a);
  if (sup.containsIntervals()) {
    R x = (fa.grid[(size_t)c.a.s] * 2 + fa.grid[(size_t)c.a.s + 1]) / 3;
    VCHECK(o_, vq::raw(a(vq::make(x))) == ref::eval(fa.piece[(size_t)c.a.s], x), "evaluation inexact");
    (void)a.front(); (void)a.back();
  }
  { std::vector<Sp> v{a, a}; std::vector<Q> cf{cq, Q(2)}; same(bspline::linearCombination(cf, v), ref::scale(fa, cr + 2), "linearCombination");
    same(bspline::linearCombination(cf.begin(), cf.end(), v.begin(), v.end()), ref::scale(fa, cr + 2), "linearCombination(iterators)"); }
  // every operator class and every scalar/compound operator
  same(bo::IdentityOperator{} * a, fa, "I");
  same(bo::Dx<1>{} * a, ref::deriv(fa, 1), "Dx<1>"); same(bo::Dx<3>{} * a, ref::deriv(fa, 3), "Dx<3>");
  same(bo::X<1>{} * a, ref::mulx(fa, 1), "X<1>"); same(bo::X<2>{} * a, ref::mulx(fa, 2), "X<2>");
  same(bo::SplineOperator{b} * a, ref::mul(fb, fa), "SplineOperator");
  same((cq * bo::X<1>{}) * a, ref::scale(ref::mulx(fa, 1), cr), "c*O"); same((bo::X<1>{} * cq) * a, ref::scale(ref::mulx(fa, 1), cr), "O*c");
  same((bo::X<1>{} / cq) * a, ref::scale(ref::mulx(fa, 1), 1 / cr), "O/c"); same((bo::X<1>{} / 2) * a, ref::scale(ref::mulx(fa, 1), R(1, 2)), "O/int");
  same((bo::X<1>{} + cq) * a, ref::add(ref::mulx(fa, 1), ref::scale(fa, cr)), "O+c"); same((cq + bo::X<1>{}) * a, ref::add(ref::mulx(fa, 1), ref::scale(fa, cr)), "c+O");
  same((bo::X<1>{} - cq) * a, ref::sub(ref::mulx(fa, 1), ref::scale(fa, cr)), "O-c"); same((3 - bo::X<1>{}) * a, ref::sub(ref::scale(fa, R(3)), ref::mulx(fa, 1)), "int-O");
  same((-bo::Dx<1>{}) * a, ref::scale(ref::deriv(fa, 1), R(-1)), "-O");
  same((bo::Dx<1>{} * bo::X<1>{} - bo::X<1>{} * bo::Dx<1>{}) * a, fa, "commutator");
  same((bo::Dx<1>{} + bo::X<1>{}) * a, ref::add(ref::deriv(fa, 1), ref::mulx(fa, 1)), "O+O");
  same(bo::ScalarMultiplication<Q, bo::IdentityOperator>{cq} * a, ref::scale(fa, cr), "ScalarMultiplication{c}");
  same(bo::transformSpline(bo::Dx<2>{}, a), ref::deriv(fa, 2), "transformSpline");
  // forms: all constructor forms and deduction guides
  R sp = ref::integral(ref::mul(fa, fb));
  VCHECK(o_, vq::raw(bi::ScalarProduct{}(a, b)) == sp && vq::raw(bi::BilinearForm{}(a, b)) == sp, "scalar product inexact");
  VCHECK(o_, vq::raw(bi::BilinearForm{bo::X<1>{}}(a, b)) == ref::integral(ref::mul(fa, ref::mulx(fb, 1))), "BilinearForm{O2} inexact");
  VCHECK(o_, vq::raw(bi::BilinearForm{bo::X<1>{}, bo::Dx<1>{}}.evaluate(a, b)) == ref::integral(ref::mul(ref::mulx(fa, 1), ref::deriv(fb, 1))), "BilinearForm{O1,O2} inexact");
  VCHECK(o_, vq::raw(bi::LinearForm{}(a)) == ref::integral(fa) && vq::raw(bi::LinearForm{bo::X<2>{}}.evaluate(a)) == ref::integral(ref::mulx(fa, 2)), "LinearForm inexact");
  // generator (both constructors, free function) on the case's grid as simple knots: partition of unity is exact
  {
    std::vector<Q> knots(grid.begin(), grid.end());
    bspline::BSplineGenerator<Q> g1(knots), g2(knots, grid);
    (void)g1.getGrid();
    if (knots.size() >= o + 2) {
      auto bs = g1.template generateBSplines<o>();
      auto bs2 = g2.template generateBSplines<o>();
      auto bs3 = bspline::generateBSplines<o>(knots);
      VCHECK(o_, bs.size() == knots.size() - o - 1 && bs == bs2 && bs == bs3, "generator routes disagree");
      ref::Fn sum(fa.grid);
      for (const auto &s : bs) sum = ref::add(sum, denote(s));
      for (size_t j = o; j + o + 1 < knots.size(); j++) VCHECK(o_, ref::equal(sum.piece[j], ref::Poly{R(1)}), "partition of unity inexact on interval " << j);
    }
  }
  // generic interpolation with a user solver
  if constexpr (o >= 1) {
    if (sup.size() >= 2) {
      std::vector<Q> y;
      for (size_t i = 0; i < sup.size(); i++) y.push_back(vq::frac((long)(i * i) - 3, 2));
      try {
        auto s = ip::interpolate<Q, o, QSolver>(sup, y);
        auto s2 = ip::interpolate<Q, o, QSolver>(sup, y, ip::internal::defaultBoundaries<Q, o>());
        VCHECK(o_, s == s2, "default boundary argument differs from defaultBoundaries()");
        for (size_t i = 0; i < sup.size(); i++) VCHECK(o_, s(sup[i]) == y[i], "interpolation inexact at node " << i);
      } catch (const Singular &) { o_.cls("interpolation-singular"); }
    }
  }
}
static void check_arch(const ArchC &c, vf::Obs &o) {
  with_order<4>((size_t)std::min<i64>(std::max<i64>(c.order, 0), 4), [&](auto O) { sweep<decltype(O)::value>(c, o); });
}
int main(int argc, char **argv) {
  auto gen = rc::gen::exec([] {
    ArchC c;
    GridOpt go; go.max_n = 8;
    c.g = gen_grid(go);
    c.order = pick(0, 4);
    c.a = gen_spline(c.g.n(), 4, chance(70) ? W_GENERAL : -1);
    c.b = gen_spline(c.g.n(), 1);
    c.cnum = pick(-7, 7); if (c.cnum == 0) c.cnum = 2; c.cden = one_of<i64>({1, 2, 3});
    return c;
  });
  vf::add_sub<ArchC>("api-sweep", 600, gen, check_arch);
  return vf::main_impl(argc, argv, "C19");
}
