// C01 -- generated basis functions are exactly the Cox-de Boor B-splines.
// Oracle: the recursion written from the definition on piecewise polynomials
// over Q in the absolute basis (no operators, no midpoint coordinates).
#include "common/cases.h"

using namespace vc;

struct KnotC {
  i64 den = 1, off = 0;
  std::vector<i64> gaps;  // >= 0; zero = repeated knot. m = gaps.size()+1 knots
  i64 order = 0, type = 0;
  std::vector<i64> gexp;  // if non-empty: a strongly GRADED knot vector 0, 2^-e_1 <= 2^-e_2 <= ... (exponents sorted descending), gaps ignored
  template <class A>
  void io(A &a) { a("den", den); a("off", off); a("gaps", gaps); a("order", order); a("type", type); a("gexp", gexp); }
  std::vector<i64> sorted_exp() const {
    std::vector<i64> e = gexp;
    for (auto &x : e) x = std::max<i64>(0, std::min<i64>(x, 100));
    std::sort(e.begin(), e.end(), std::greater<i64>());
    return e;
  }
  std::vector<R> knots() const {
    if (!gexp.empty()) {
      std::vector<R> k{R(0)};
      for (auto e : sorted_exp()) { R v(1); v >>= (unsigned long)e; k.push_back(v); }
      return k;
    }
    std::vector<R> k;
    i64 d = den < 1 ? 1 : den, x = off;
    k.push_back(R(x, d));
    for (auto g : gaps) { x += g < 0 ? 0 : g; k.push_back(R(x, d)); }
    for (auto &q : k) q.canonicalize();
    return k;
  }
  template <class T>
  std::vector<T> knotsT() const {
    if (!gexp.empty()) {
      std::vector<T> k{mk<T>(0)};
      for (auto e : sorted_exp()) {
        if constexpr (std::is_same_v<T, Q>) { R v(1); v >>= (unsigned long)e; k.push_back(vq::make(v)); }
        else k.push_back(std::ldexp((T)1, -(int)e));
      }
      return k;
    }
    std::vector<T> k;
    i64 d = den < 1 ? 1 : den, x = off;
    k.push_back(mk<T>(x, d));
    for (auto g : gaps) { x += g < 0 ? 0 : g; k.push_back(mk<T>(x, d)); }
    return k;
  }
};

// Cox-de Boor on the reference model
static std::vector<ref::Fn> cox_de_boor(const std::vector<R> &t, size_t p, const std::vector<R> &grid) {
  const size_t m = t.size();
  std::vector<ref::Fn> B;
  for (size_t i = 0; i + 1 < m; i++) {
    ref::Fn f(grid);
    if (t[i] < t[i + 1]) {
      for (size_t j = 0; j + 1 < grid.size(); j++)
        if (grid[j] == t[i]) f.piece[j] = ref::Poly{R(1)};
    }
    B.push_back(f);
  }
  for (size_t q = 1; q <= p; q++) {
    std::vector<ref::Fn> N;
    for (size_t i = 0; i + q + 1 < m; i++) {
      ref::Fn f(grid);
      if (t[i + q] != t[i]) {
        R d = t[i + q] - t[i];
        ref::Poly w{-t[i] / d, R(1) / d};  // (x - t_i)/(t_{i+q}-t_i)
        for (size_t j = 0; j < f.nint(); j++) f.piece[j] = ref::add(f.piece[j], ref::mul(w, ref::trimmed(B[i].piece[j])));
      }
      if (t[i + q + 1] != t[i + 1]) {
        R d = t[i + q + 1] - t[i + 1];
        ref::Poly w{t[i + q + 1] / d, R(-1) / d};  // (t_{i+q+1} - x)/(t_{i+q+1}-t_{i+1})
        for (size_t j = 0; j < f.nint(); j++) f.piece[j] = ref::add(f.piece[j], ref::mul(w, ref::trimmed(B[i + 1].piece[j])));
      }
      N.push_back(f);
    }
    B = N;
  }
  return B;
}

static R absr(const R &r) { return r < 0 ? R(-r) : r; }
static double g_max_ratio_log2 = -1e9;

template <class T, size_t p>
static void gen_T(const KnotC &c, vf::Obs &o) {
  constexpr bool exactT = std::is_same_v<T, Q>;
  std::vector<R> t = c.knots();
  const size_t m = t.size();
  std::vector<R> grid;
  for (auto &x : t) if (grid.empty() || grid.back() != x) grid.push_back(x);
  if (grid.size() < 2) { o.discard("fewer than two distinct knots"); return; }
  if (m < p + 1) { o.discard("m < p+1"); return; }
  std::vector<T> kt = c.knotsT<T>();
  std::vector<T> gt;
  for (auto &x : kt) if (gt.empty() || gt.back() != x) gt.push_back(x);

  bspline::BSplineGenerator<T> g1(kt);
  bspline::support::Grid<T> own(gt);  // separately constructed, logically equal
  bspline::BSplineGenerator<T> g2(kt, own);
  auto r1 = g1.template generateBSplines<p>();
  auto r2 = g2.template generateBSplines<p>();
  auto r3 = bspline::generateBSplines<p>(kt);
  // generation must not depend on what the generator or the grid object was used for before: second call on the same
  // generator, on a copy, and knots+grid routes whose Grid object comes out of an earlier result / the generator itself
  {
    auto again = g1.template generateBSplines<p>();
    VCHECK(o, again == r1, "a second generateBSplines call on the same generator returns a different basis");
    const bool more = ((c.gaps.size() + (size_t)(c.off < 0 ? -c.off : c.off) + c.gexp.size()) % 4) == 0;  // the costlier variants on a quarter of the cases
    if (!r1.empty()) {
      bspline::BSplineGenerator<T> g4(kt, r1.front().getSupport().getGrid());
      VCHECK(o, g4.template generateBSplines<p>() == r1, "knots + a grid object taken from an earlier basis function gives a different basis");
    }
    if (more) {
      bspline::BSplineGenerator<T> gcopy(g1);
      VCHECK(o, gcopy.template generateBSplines<p>() == r1, "a copy of a used generator returns a different basis");
      bspline::BSplineGenerator<T> g3(kt, g1.getGrid());
      VCHECK(o, g3.template generateBSplines<p>() == r1, "knots + the first generator's own grid object gives a different basis");
      if (!r1.empty()) { bspline::BSplineGenerator<T> g5(kt, r1.back().getSupport().getGrid()); VCHECK(o, g5.template generateBSplines<p>() == r1, "knots + the grid object of the last basis function gives a different basis"); }
    }
    if (more) if constexpr (p >= 1) { auto lower = g1.template generateBSplines<p - 1>(); VCHECK(o, lower.size() == kt.size() - p, "lower-order basis from a used generator has the wrong size"); VCHECK(o, g1.template generateBSplines<p>() == r1, "basis changes after the generator produced another order"); }
  }
  const size_t want = m - p - 1;
  VCHECK(o, r1.size() == want && r2.size() == want && r3.size() == want, "number of functions " << r1.size() << "/" << r2.size() << "/" << r3.size() << " expected m-p-1 = " << want);
  VCHECK(o, g1.getGrid() == own && g2.getGrid() == own, "generator grid is not the de-duplicated knot vector");
  auto B = cox_de_boor(t, p, grid);
  VCHECK(o, B.size() == want, "harness: reference count");
  // multiplicities
  size_t maxmult = 1, run = 1;
  for (size_t i = 1; i < m; i++) { run = t[i] == t[i - 1] ? run + 1 : 1; maxmult = std::max(maxmult, run); }
  bool uniform = true;
  for (size_t j = 2; j < grid.size(); j++) if (grid[j] - grid[j - 1] != grid[1] - grid[0]) uniform = false;
  o.cls("p:" + std::to_string(p));
  o.cls(std::string("type:") + Scalar<T>::name);
  o.cls(maxmult == 1 ? "mult:simple" : maxmult <= p ? "mult:<=p" : maxmult == p + 1 ? "mult:p+1" : "mult:>p+1");
  if (!c.gexp.empty()) o.cls("graded-mesh");
  if (want == 0) o.cls("no-function");
  if (want == 1) o.cls("one-function");
  o.nt(want >= 1 && (maxmult > 1 || !uniform || m <= p + 3 || absr(grid[0]) > 4));

  std::vector<ref::Fn> D;
  if constexpr (exactT) for (size_t i = 0; i < want; i++) D.push_back(denote(r1[i]));
  for (size_t i = 0; i < want; i++) {
    std::string inv = spline_invariant(r1[i]);
    VCHECK(o, inv.empty(), "function " << i << " invalid: " << inv);
    VCHECK(o, r1[i] == r2[i], "routes knots-only and knots+grid return different splines for i=" << i);
    VCHECK(o, r1[i] == r3[i], "generateBSplines<p>(knots) differs from the generator object for i=" << i);
    VCHECK(o, r1[i].getSupport().hasSameGrid(bspline::support::Support<T>::createEmpty(own)), "function " << i << " lives on a different grid");
    if constexpr (exactT) {
      const ref::Fn &got = D[i];
      long d = ref::first_diff(got, B[i]);
      VCHECK(o, d == -1, "B_{" << i << "," << p << "} differs from Cox-de Boor on grid interval " << d << ": got" << ref::str(got) << " expected" << ref::str(B[i]));
      // vanishes outside [t_i, t_{i+p+1}]
      for (size_t j = 0; j < got.nint(); j++)
        if (got.grid[j + 1] <= t[i] || got.grid[j] >= t[i + p + 1]) VCHECK(o, ref::is_zero(got.piece[j]), "function " << i << " non-zero outside [t_i,t_{i+p+1}] at interval " << j);
    } else {
      // same window as the exact result wherever the exact function is non-zero; coefficients at rounding level
      const auto &sup = r1[i].getSupport();
      const auto &co = r1[i].getCoefficients();
      for (size_t j = 0; j + 1 < grid.size(); j++) {
        auto rel = sup.intervalIndexFromAbsolute(j);
        bool nz = !ref::is_zero(B[i].piece[j]);
        VCHECK(o, !nz || rel.has_value(), "function " << i << ": interval " << j << " missing from the window although B is non-zero there");
        R xm = (grid[j] + grid[j + 1]) / 2, h = (grid[j + 1] - grid[j]) / 2;
        // exact midpoint coefficients of B on interval j: Taylor expansion about xm
        std::vector<R> ex(p + 1, R(0));
        ref::Poly d = ref::trimmed(B[i].piece[j]);
        R fact(1);
        for (size_t k = 0; k <= p; k++) {
          if (k > 0) fact *= R((long)k);
          ex[k] = ref::eval(d, xm) / fact;
          d = ref::deriv(d, 1);
        }
        R E(0), S(0), hp(1);
        for (size_t k = 0; k <= p; k++) {
          R cf = rel ? exact(co[*rel][k]) : R(0);
          E += absr(cf - ex[k]) * hp;
          S += absr(ex[k]) * hp;
          hp *= h;
        }
        R eps(1);
        for (int b = 0; b < std::numeric_limits<T>::digits - 1; b++) eps /= 2;
        if (S == 0) {
          VCHECK(o, E == 0, "function " << i << ": non-zero coefficients on interval " << j << " where B vanishes identically");
        } else {
          R ratio = E / (eps * S);
          double lr = ratio == 0 ? -1e9 : std::log2(ratio.get_d());
          if (lr > g_max_ratio_log2) g_max_ratio_log2 = lr;
          vf::metric_max(std::string("log2_max_error_in_eps_units:B-spline generation/") + Scalar<T>::name, lr);
          VCHECK(o, ratio <= R(1 << 20), "function " << i << " interval " << j << ": coefficient error " << ratio.get_d() << " eps relative to sum|c_k|h^k exceeds 2^20");
        }
      }
    }
  }
  if constexpr (exactT) {
    // partition of unity on the intervals inside [t_p, t_{m-p-1}]
    if (want >= 1) {
      for (size_t j = 0; j + 1 < grid.size(); j++) {
        if (!(grid[j] >= t[p] && grid[j + 1] <= t[m - p - 1])) continue;
        ref::Poly sum;
        for (size_t i = 0; i < want; i++) sum = ref::add(sum, D[i].piece[j]);
        VCHECK(o, ref::equal(sum, ref::Poly{R(1)}), "functions do not sum to one on interval " << j << " inside [t_p,t_{m-p-1}]: sum = " << ref::str(ref::trimmed(sum)));
        o.cls("partition-of-unity-interval");
      }
    }
    // C^{p-mu} across a knot of multiplicity mu
    for (size_t j = 1; j + 1 < grid.size(); j++) {
      size_t mu = 0;
      for (auto &x : t) if (x == grid[j]) mu++;
      bool jump_seen = false;
      for (size_t i = 0; i < want; i++) {
        const ref::Fn &f = D[i];
        ref::Poly l = ref::trimmed(f.piece[j - 1]), r = ref::trimmed(f.piece[j]);
        for (size_t k = 0; k <= p; k++) {
          bool same = ref::eval(l, grid[j]) == ref::eval(r, grid[j]);
          if (k + mu <= p) VCHECK(o, same, "function " << i << " derivative " << k << " jumps at knot " << rstr(grid[j]) << " of multiplicity " << mu << " (must be C^" << (long)p - (long)mu << ")");
          if (k + mu == p + 1 && !same) jump_seen = true;
          l = ref::deriv(l, 1); r = ref::deriv(r, 1);
        }
      }
      if (mu <= p + 1 && grid[j] > t[p] && grid[j] < t[m - p - 1])
        VCHECK(o, jump_seen, "no function has a jump in derivative " << p + 1 - mu << " at interior knot " << rstr(grid[j]) << " of multiplicity " << mu << " (basis would be smoother than C^{p-mu})");
      o.cls("continuity-knot");
    }
  }
}

#ifndef VERIF_PART
#define VERIF_PART -1
#endif
#define PART(k) (VERIF_PART == -1 || VERIF_PART == (k))
#ifndef MAXP
#define MAXP 6
#endif
template <class T>
static void dispatch(const KnotC &c, vf::Obs &o) {
  with_order<MAXP>((size_t)std::min<i64>(std::max<i64>(c.order, 0), MAXP), [&](auto P) { gen_T<T, decltype(P)::value>(c, o); });
}
void gen_q(const KnotC &c, vf::Obs &o);
void gen_f(const KnotC &c, vf::Obs &o);
void gen_d(const KnotC &c, vf::Obs &o);
void gen_ld(const KnotC &c, vf::Obs &o);
double &ratio_f(); double &ratio_d(); double &ratio_ld();
#if PART(0)
void gen_q(const KnotC &c, vf::Obs &o) { dispatch<Q>(c, o); }
#endif
#if PART(1)
void gen_f(const KnotC &c, vf::Obs &o) { dispatch<float>(c, o); }
double &ratio_f() { return g_max_ratio_log2; }
#endif
#if PART(2)
void gen_d(const KnotC &c, vf::Obs &o) { dispatch<double>(c, o); }
double &ratio_d() { return g_max_ratio_log2; }
#endif
#if PART(3)
void gen_ld(const KnotC &c, vf::Obs &o) { dispatch<long double>(c, o); }
double &ratio_ld() { return g_max_ratio_log2; }
#endif

#if PART(0)
static void check_gen(const KnotC &c, vf::Obs &o) {
  switch (c.type) {
    case 1: gen_f(c, o); break;
    case 2: gen_d(c, o); break;
    case 3: gen_ld(c, o); break;
    default: gen_q(c, o);
  }
}
static rc::Gen<KnotC> gen_knots(bool exact_only, int max_extra) {
  return rc::gen::exec([exact_only, max_extra] {
    KnotC c;
    c.type = exact_only ? 0 : pick(1, 3);
    c.order = pick(0, MAXP);
    const i64 p = c.order;
    c.den = exact_only ? one_of<i64>({1, 1, 2, 3, 4, 7, 8}) : one_of<i64>({1, 2, 4, 8});
    int shape = (int)pick(0, 9);
    // 0-2 random with 35% zero gaps, 3 simple, 4 clamped, 5 multiplicity > p+1 at an end, 6 multiplicity p+2.. inside,
    // 7 interior repeats 2..p+2, 8 shortest (m = p+1 or p+2), 9 far from origin / minimal gaps
    i64 maxgap = exact_only ? 9 : 4;
    auto rndgaps = [&](i64 cnt, int zero_pct) { for (i64 i = 0; i < cnt; i++) c.gaps.push_back(chance(zero_pct) ? 0 : pick(1, maxgap)); };
    i64 extra = pick(0, max_extra);
    switch (shape) {
      case 3: rndgaps(p + extra, 0); break;
      case 4:
        for (i64 i = 0; i < p; i++) c.gaps.push_back(0);
        rndgaps(std::max<i64>(1, extra), 10);
        if (c.gaps.back() == 0) c.gaps.back() = 1;
        for (i64 i = 0; i < p; i++) c.gaps.push_back(0);
        break;
      case 5: {
        i64 mult = p + 2 + pick(0, 2);
        if (chance(50)) { for (i64 i = 1; i < mult; i++) c.gaps.push_back(0); rndgaps(std::max<i64>(1, extra), 20); }
        else { rndgaps(std::max<i64>(1, extra), 20); if (c.gaps.back() == 0) c.gaps.back() = 1; for (i64 i = 1; i < mult; i++) c.gaps.push_back(0); }
        break;
      }
      case 6: {
        rndgaps(pick(1, 4), 10); if (c.gaps.back() == 0) c.gaps.back() = 2;
        i64 mult = p + 2 + pick(0, 1);
        for (i64 i = 1; i < mult; i++) c.gaps.push_back(0);
        rndgaps(pick(1, 4), 10); if (c.gaps.back() == 0) c.gaps.back() = 1;
        break;
      }
      case 7: {
        rndgaps(pick(1, 3), 0);
        int reps = (int)pick(1, 3);
        for (int r = 0; r < reps; r++) {
          i64 mult = pick(2, p + 2);
          for (i64 i = 1; i < mult; i++) c.gaps.push_back(0);
          rndgaps(pick(1, 3), 0);
        }
        break;
      }
      case 8: rndgaps(p + (chance(50) ? 0 : 1), 30); break;
      default: rndgaps(p + extra, 35); break;
    }
    if (c.gaps.empty()) c.gaps.push_back(1);
    bool anypos = false;
    for (auto g : c.gaps) if (g > 0) anypos = true;
    if (!anypos) c.gaps[(size_t)pick(0, (i64)c.gaps.size() - 1)] = 1;
    i64 total = 0;
    for (auto g : c.gaps) total += g;
    i64 span = (exact_only ? 64 : 8) * c.den;
    if (total > 2 * span) {  // squeeze into the magnitude bound, keep zero gaps zero
      for (auto &g : c.gaps) if (g > 0) g = 1;
      total = 0; for (auto g : c.gaps) total += g;
    }
    while (total > 2 * span && c.gaps.size() > 1) { total -= c.gaps.back(); c.gaps.pop_back(); }
    i64 lo = -span, hi = std::max<i64>(lo, span - total);
    if (shape == 9) c.off = chance(50) ? hi : lo;
    else c.off = std::max(lo, std::min(hi, pick(-3 * c.den, 3 * c.den) - total / 2));
    if (shape == 9) for (auto &g : c.gaps) if (g > 0) g = 1;
    if (chance(12)) {
      // NEARLY equidistant knots (in the well-scaled domain: |t| <= 8, spacing >= 1/8, every knot exactly representable):
      // spacings h + d_i with h = 1/8 or 1/4 and 0 <= d_i < 2^-j, j = 8..45 - "equal within a tolerance" but not equal.
      // A generator that treats such a stretch as uniform is off by j*2^-j relative, far above 2^20 eps for the wider types.
      const int kmax = c.type == 1 ? 17 : c.type == 2 ? 45 : 55;  // 8 * 2^k must be exactly representable
      const int k = (int)pick(12, kmax);
      c.den = (i64)1 << k;
      const i64 h = c.den / (chance(70) ? 8 : 4);
      const int j = (int)pick(8, k - 3);   // perturbations below 2^-j
      const i64 cnt = p + 2 + pick(1, 10);
      c.gaps.clear(); c.gexp.clear();
      const int pattern = (int)pick(0, 2);  // 0: one spacing differs, 1: all differ, 2: alternating
      const i64 where = pick(0, cnt - 1);
      for (i64 i = 0; i < cnt; i++) {
        i64 d = (pattern == 0 ? (i == where) : pattern == 1 ? true : (i % 2 == 0)) ? pick(1, std::max<i64>(1, c.den >> j)) : 0;
        c.gaps.push_back(h + d);
      }
      i64 tot = 0; for (auto g : c.gaps) tot += g;
      const i64 spn = 8 * c.den;
      while (tot > 2 * spn && c.gaps.size() > 1) { tot -= c.gaps.back(); c.gaps.pop_back(); }
      c.off = chance(40) ? -spn : chance(50) ? spn - tot : -tot / 2;
      return c;
    }
    if (chance(8) && c.type != 1) {
      // strongly graded mesh: knot intervals from 2^-90 up to 1/2 in one vector (width ratios far beyond 1/eps), some repeated knots.
      // Not for float: midpoint coefficients scale like h^-p, and 2^(90*3) is outside float's exponent range.
      i64 cnt = p + 2 + pick(0, 6);
      for (i64 i = 0; i < cnt; i++) c.gexp.push_back(chance(20) && !c.gexp.empty() ? c.gexp.back() : pick(0, exact_only ? 100 : 90));
    }
    return c;
  });
}

int main(int argc, char **argv) {
  vf::add_sub<KnotC>("exact", 900, gen_knots(true, 8), check_gen);
  vf::add_sub<KnotC>("exact-long", 120, gen_knots(true, 30), check_gen);  // long knot vectors (up to p+31 knots)
  vf::add_sub<KnotC>("float-types", 600, gen_knots(false, 8), check_gen);
  int rc = vf::main_impl(argc, argv, "C01");
  fprintf(stderr, "max coefficient error log2(eps units): float %.2f double %.2f long double %.2f\n", ratio_f(), ratio_d(), ratio_ld());
  return rc;
}
#endif
