// C06 / C07 -- forms as OBJECTS. The expression catalogue builds every form from temporaries and evaluates it on two
// distinct spline objects. Callers also (1) set up a form from a NAMED operator (an lvalue: the constructors take their
// operators by value, so the form keeps the operator it was built with whatever happens to the variable afterwards),
// (2) evaluate a form on one and the same spline object (diagonal matrix elements) and (3) combine two operators of one
// C++ type that differ only in run-time state (scalar factor, factor spline). All values are exact (scalar Q) and
// compared with the integral computed from the reference model.
#include "common/cases.h"

using namespace vc;
namespace bo = bspline::operators;
using bspline::integration::BilinearForm;
using bspline::integration::LinearForm;

struct FormC {
  GridC g;
  SplineC a, b, fa, fb;
  i64 o = 0, k = 0, c1n = 1, c1d = 1, c2n = 1, c2d = 1;
  template <class A>
  void io(A &x) { x("g", g); x("a", a); x("b", b); x("fa", fa); x("fb", fb); x("o", o); x("k", k); x("c1n", c1n); x("c1d", c1d); x("c2n", c2n); x("c2d", c2d); }
};

static const char *family_name[] = {"c*X<1>", "c*Dx<1>", "SplineOperator{f}", "X<1>+c", "c*(Dx<1>*X<1>)", "SplineOperator{f}*Dx<1>", "c-X<2>", "Dx<1>/c"};
constexpr int NFAM = 8;

static int &mode() { static int m = 0; return m; }  // 0: C06 oracles, 1: C07 oracles

template <size_t o, class Mk, class Rf>
static void family(const FormC &c, vf::Obs &obs, Mk mk, Rf rf) {
  auto grid = make_grid<Q>(c.g);
  const auto a = make_spline<Q, o>(grid, c.a);
  const auto b = make_spline<Q, 1>(grid, c.b);
  const auto f1 = make_spline<Q, 1>(grid, c.fa), f2 = make_spline<Q, 1>(grid, c.fb);
  ref::Fn A = model_of(c.g, c.a, o), B = model_of(c.g, c.b, 1), F1 = model_of(c.g, c.fa, 1), F2 = model_of(c.g, c.fb, 1);
  Q c1 = vq::frac(c.c1n == 0 ? 1 : c.c1n, c.c1d < 1 ? 1 : c.c1d), c2 = vq::frac(c.c2n == 0 ? 2 : c.c2n, c.c2d < 1 ? 1 : c.c2d);
  R r1 = vq::raw(c1), r2 = vq::raw(c2);
  bool differ = !(r1 == r2) || !(c.fa.s == c.fb.s && c.fa.e == c.fb.e && c.fa.num == c.fb.num && c.fa.cden == c.fb.cden && c.fa.zmask == c.fb.zmask);
  obs.cls(std::string("family:") + family_name[c.k % NFAM]);
  obs.cls("order:" + std::to_string(o));
  obs.cls(differ ? "operator-states:differ" : "operator-states:equal");
  obs.nt(c.a.e - c.a.s >= 2 && differ);

  // two operators of ONE type with different state, as named objects
  auto op1 = mk(c1, f1);
  auto op2 = mk(c2, f2);
  static_assert(std::is_same_v<decltype(op1), decltype(op2)>, "same operator type");
  const ref::Fn A1 = rf(A, r1, F1), A2 = rf(A, r2, F2), B1 = rf(B, r1, F1), B2 = rf(B, r2, F2);

  if (mode() == 0) {
    // (2)+(3): one spline object on both sides, operators of one type and different state
    BilinearForm form{op1, op2};
    const auto acopy = a;
    R expect = ref::integral(ref::mul(A1, A2));
    Q vs = form(a, a), vc_ = form(a, acopy), ve = form.evaluate(a, a);
    VCHECK(obs, vq::raw(vs) == expect, "<O1 s | O2 s> with ONE spline object on both sides and two " << family_name[c.k % NFAM] << " operators of different state = " << vq::str(vs) << " but the exact integral is " << rstr(expect));
    VCHECK(obs, vs == vc_ && vs == ve, "form(s, s) = " << vq::str(vs) << " differs from form(s, copy of s) = " << vq::str(vc_) << " or evaluate(s, s) = " << vq::str(ve));
    // (1): forms built from a named operator keep ITS VALUE at construction
    auto var = mk(c1, f1);
    BilinearForm one{var};
    BilinearForm two{var, var};
    const auto cvar = mk(c1, f1);
    BilinearForm cone{cvar};
    auto local_form = [&] { auto local = mk(c1, f1); return BilinearForm{local}; }();
    var = mk(c2, f2);  // the variable is reused for the next operator
    R e_one = ref::integral(ref::mul(A, B1)), e_two = ref::integral(ref::mul(A1, B1));
    Q g1 = one(a, b), g2 = two(a, b), g3 = cone(a, b), g4 = local_form(a, b);
    VCHECK(obs, vq::raw(g1) == e_one, "BilinearForm{op} built from a named operator and evaluated after the variable was reassigned = " << vq::str(g1) << ", expected the integral with the operator it was constructed with " << rstr(e_one));
    VCHECK(obs, vq::raw(g2) == e_two, "BilinearForm{op, op} built from a named operator and evaluated after the variable was reassigned = " << vq::str(g2) << ", expected " << rstr(e_two));
    VCHECK(obs, vq::raw(g3) == e_one, "BilinearForm{op} built from a const named operator = " << vq::str(g3) << ", expected " << rstr(e_one));
    VCHECK(obs, vq::raw(g4) == e_one, "BilinearForm{op} returned from a function that built it from a local operator = " << vq::str(g4) << ", expected " << rstr(e_one));
    // the one-operator form on ONE object (O1 = identity, O2 = op): types differ, plain value check
    R e_diag = ref::integral(ref::mul(A, A1));
    VCHECK(obs, vq::raw(cone(a, a)) == e_diag, "BilinearForm{op}(s, s) differs from the exact integral");
    // full diagonal element with equal state: the norm square
    BilinearForm nrm{op1, mk(c1, f1)};
    VCHECK(obs, vq::raw(nrm(a, a)) == ref::integral(ref::mul(A1, A1)), "<O s | O s> with one spline object differs from the exact integral");
    // second spline of the same order but different content, same-type operators
    if constexpr (o == 1) {
      VCHECK(obs, vq::raw(form(a, b)) == ref::integral(ref::mul(A1, B2)), "<O1 a | O2 b> for two splines of one order and two same-type operators differs from the exact integral");
    }
  } else {
    // C07: bilinear form == identity linear form of the product, also for one object on both sides
    BilinearForm form{op1, op2};
    Q vs = form(a, a);
    Q lf = LinearForm{}((op1 * a) * (op2 * a));
    VCHECK(obs, vs == lf, "<O1 s | O2 s> = " << vq::str(vs) << " (one spline object, same-type operators " << family_name[c.k % NFAM] << " with different state) differs from the identity linear form of the product (O1 s)*(O2 s) = " << vq::str(lf));
    VCHECK(obs, vq::raw(lf) == ref::integral(ref::mul(A1, A2)), "identity linear form of the product differs from the exact integral");
    // linear forms from named operators
    auto var = mk(c1, f1);
    LinearForm l{var};
    const auto cvar = mk(c1, f1);
    LinearForm lc{cvar};
    auto local_form = [&] { auto local = mk(c1, f1); return LinearForm{local}; }();
    var = mk(c2, f2);
    R e = ref::integral(A1);
    Q g1 = l(a), g2 = lc(a), g3 = local_form(a);
    VCHECK(obs, vq::raw(g1) == e, "LinearForm{op} built from a named operator and evaluated after the variable was reassigned = " << vq::str(g1) << ", expected " << rstr(e));
    VCHECK(obs, vq::raw(g2) == e && vq::raw(g3) == e, "LinearForm{op} built from a const or local named operator differs from the exact integral " << rstr(e));
    VCHECK(obs, l(a) == LinearForm{}(mk(c1, f1) * a), "LinearForm{O}(s) != LinearForm{}(O s)");
  }
}

template <size_t o>
static void by_family(const FormC &c, vf::Obs &obs) {
  using S1 = bspline::Spline<Q, 1>;
  switch (c.k % NFAM) {
    case 0: family<o>(c, obs, [](const Q &s, const S1 &) { return s * bo::X<1>{}; }, [](const ref::Fn &x, const R &s, const ref::Fn &) { return ref::scale(ref::mulx(x, 1), s); }); break;
    case 1: family<o>(c, obs, [](const Q &s, const S1 &) { return s * bo::Dx<1>{}; }, [](const ref::Fn &x, const R &s, const ref::Fn &) { return ref::scale(ref::deriv(x, 1), s); }); break;
    case 2: family<o>(c, obs, [](const Q &, const S1 &f) { return bo::SplineOperator{f}; }, [](const ref::Fn &x, const R &, const ref::Fn &f) { return ref::mul(f, x); }); break;
    case 3: family<o>(c, obs, [](const Q &s, const S1 &) { return bo::X<1>{} + s; }, [](const ref::Fn &x, const R &s, const ref::Fn &) { return ref::add(ref::mulx(x, 1), ref::scale(x, s)); }); break;
    case 4: family<o>(c, obs, [](const Q &s, const S1 &) { return s * (bo::Dx<1>{} * bo::X<1>{}); }, [](const ref::Fn &x, const R &s, const ref::Fn &) { return ref::scale(ref::deriv(ref::mulx(x, 1), 1), s); }); break;
    case 5: family<o>(c, obs, [](const Q &, const S1 &f) { return bo::SplineOperator{f} * bo::Dx<1>{}; }, [](const ref::Fn &x, const R &, const ref::Fn &f) { return ref::mul(f, ref::deriv(x, 1)); }); break;
    case 6: family<o>(c, obs, [](const Q &s, const S1 &) { return s - bo::X<2>{}; }, [](const ref::Fn &x, const R &s, const ref::Fn &) { return ref::sub(ref::scale(x, s), ref::mulx(x, 2)); }); break;
    default: family<o>(c, obs, [](const Q &s, const S1 &) { return bo::Dx<1>{} / s; }, [](const ref::Fn &x, const R &s, const ref::Fn &) { return ref::scale(ref::deriv(x, 1), 1 / s); }); break;
  }
}
static void check_forms(const FormC &c, vf::Obs &obs) {
  with_order<3>((size_t)std::min<i64>(std::max<i64>(c.o, 0), 3), [&](auto O) { by_family<decltype(O)::value>(c, obs); });
}

int main(int argc, char **argv) {
  auto gen = rc::gen::exec([] {
    FormC c;
    GridOpt go; go.min_n = 2; go.max_n = 8;
    c.g = gen_grid(go);
    size_t n = c.g.n();
    c.o = pick(0, 3); c.k = pick(0, NFAM - 1);
    gen_pair(n, gen_placement(), c.a.s, c.a.e, c.b.s, c.b.e);
    if (chance(70)) gen_window(n, c.a.s, c.a.e, chance(50) ? W_WHOLE : W_GENERAL);
    gen_coeffs(c.a, 3); gen_coeffs(c.b, 1);
    c.fa = gen_spline(n, 1, chance(60) ? W_WHOLE : -1);
    c.fb = gen_spline(n, 1, chance(60) ? W_WHOLE : -1);
    c.c1n = pick(-6, 6); c.c1d = one_of<i64>({1, 2, 3}); c.c2n = pick(-6, 6); c.c2d = one_of<i64>({1, 2, 3});
    if (c.c1n == 0) c.c1n = 1;
    if (c.c2n == 0) c.c2n = 2;
    if (chance(10)) { c.c2n = c.c1n; c.c2d = c.c1d; c.fb = c.fa; }  // equal state
    return c;
  });
  vf::add_sub<FormC>("bilinear-form-objects", 3000, gen, [](const FormC &c, vf::Obs &o) { mode() = 0; check_forms(c, o); });
  vf::add_sub<FormC>("linform-form-objects", 3000, gen, [](const FormC &c, vf::Obs &o) { mode() = 1; check_forms(c, o); });
  return vf::main_impl(argc, argv, "C06");
}
