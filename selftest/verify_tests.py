#!/usr/bin/env python3
"""Checks that each mutant of selftest/mutants.py still compiles and passes the repository's own 28 tests
(so the self-test only counts changes the existing suite cannot see). Uses ONE scratch worktree of /repo outside
/repo and /verif with an incremental ninja build; results in selftest/tests-pass.json. usage: verify_tests.py [id ...]"""
import json, os, subprocess, sys, shutil
HERE = os.path.dirname(os.path.abspath(__file__))
sys.path.insert(0, HERE)
import mutants
WT = '/tmp/vmut-tests'
ids = sys.argv[1:]
def sh(cmd, **kw):
    return subprocess.run(cmd, shell=True, capture_output=True, text=True, **kw)
if not os.path.isdir(WT):
    r = sh('git -C /repo worktree add --detach %s HEAD' % WT); assert r.returncode == 0, r.stderr
    r = sh('cd %s && cmake -G Ninja -B _build -DCMAKE_BUILD_TYPE=RelWithDebInfo -DCMAKE_CXX_FLAGS=-Wno-error' % WT); assert r.returncode == 0, r.stderr
rp = os.path.join(HERE, 'tests-pass.json')
res = json.load(open(rp)) if os.path.exists(rp) else {}
for m in mutants.M:
    mid, props, path, old, new, note = m
    if ids and mid not in ids: continue
    if not ids and mid in res and res[mid].get('old') == old and res[mid].get('new') == new: continue
    sh('git -C %s checkout -- .' % WT)
    p = os.path.join(WT, path); s = open(p).read(); assert s.count(old) == 1, mid
    open(p, 'w').write(s.replace(old, new))
    b = sh('nice ninja -C %s/_build -j12 test 2>&1 | tail -30' % WT)
    ok_build = 'FAILED' not in b.stdout and 'error' not in b.stdout
    t = sh('%s/_build/tests/test 2>&1 | tail -5' % WT) if ok_build else None
    ok_test = bool(t) and 'No errors detected' in t.stdout
    res[mid] = dict(compiles=ok_build, tests_pass=ok_test, old=old, new=new, detail=(b.stdout[-400:] if not ok_build else (t.stdout[-300:] if not ok_test else '')))
    print('%-26s compiles=%s tests_pass=%s' % (mid, ok_build, ok_test), flush=True)
    json.dump(res, open(rp, 'w'), indent=1)
sh('git -C %s checkout -- .' % WT)
print('done; remove the worktree with: git -C /repo worktree remove --force', WT)
