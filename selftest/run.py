#!/usr/bin/env python3
"""Sensitivity self-test. usage: selftest/run.py [--tier quick] [--all-props] [--jobs N] [id ...]
For each mutant of selftest/mutants.py: copy include/ + examples/ of /repo to a scratch directory outside /repo and /verif,
apply the edit, run ./check <property> <tier> with VERIF_REPO=<scratch>, expect exit 1 + VIOLATION (exit 0 for controls),
delete the scratch copy. Results: selftest/results.json"""
import json, os, shutil, subprocess, sys, time
from concurrent.futures import ThreadPoolExecutor
HERE = os.path.dirname(os.path.abspath(__file__))
ROOT = os.path.dirname(HERE)
sys.path.insert(0, HERE)
import mutants
REPO = '/repo'
args = sys.argv[1:]
tier = 'quick'; allp = False; jobs = 3; ids = []
i = 0
while i < len(args):
    if args[i] == '--tier': tier = args[i + 1]; i += 2
    elif args[i] == '--all-props': allp = True; i += 1
    elif args[i] == '--jobs': jobs = int(args[i + 1]); i += 2
    else: ids.append(args[i]); i += 1

def one(m):
    mid, props, path, old, new, note = m
    control = 'control' in note
    scratch = '/tmp/vmut/%s' % mid
    shutil.rmtree(scratch, ignore_errors=True)
    os.makedirs(scratch)
    for d in ('include', 'examples'):
        shutil.copytree(os.path.join(REPO, d), os.path.join(scratch, d))
    p = os.path.join(scratch, path)
    s = open(p).read()
    assert s.count(old) == 1, mid
    open(p, 'w').write(s.replace(old, new))
    out = []
    for prop in (props if allp else props[:1]):
        t0 = time.time()
        e = dict(os.environ, VERIF_REPO=scratch, VERIF_JOBS='8')
        r = subprocess.run([os.path.join(ROOT, 'check'), prop, tier], capture_output=True, text=True, env=e, cwd=ROOT)
        viol = [l for l in r.stdout.splitlines() if l.startswith('VIOLATION')]
        reason = [l.strip() for l in r.stderr.splitlines() if l.strip().startswith('reason:')]
        out.append(dict(mutant=mid, property=prop, control=control, exit=r.returncode, violations=len(viol),
                        caught=(r.returncode == 1 and bool(viol)), wall_s=round(time.time() - t0, 1),
                        first_reason=(reason[0][:300] if reason else ''), tail=r.stdout.strip().splitlines()[-1:] if r.stdout.strip() else []))
        print('%-26s %-4s exit=%d %s %5.0fs  %s' % (mid, prop, r.returncode, 'CONTROL' if control else ('caught' if out[-1]['caught'] else 'MISSED'), out[-1]['wall_s'], out[-1]['first_reason'][:110]), flush=True)
    shutil.rmtree(scratch, ignore_errors=True)
    return out

ms = [m for m in mutants.M if not ids or m[0] in ids]
res = []
with ThreadPoolExecutor(max_workers=jobs) as ex:
    for o in ex.map(one, ms):
        res += o
rp = os.path.join(HERE, 'results-%s.json' % tier)
old = {}
if os.path.exists(rp):
    for r in json.load(open(rp)):
        old[(r['mutant'], r['property'])] = r
for r in res:
    old[(r['mutant'], r['property'])] = r
json.dump(sorted(old.values(), key=lambda r: (r['mutant'], r['property'])), open(rp, 'w'), indent=1)
nc = [r for r in res if not r['control']]
print('caught %d / %d non-control runs; controls green: %d / %d' % (sum(r['caught'] for r in nc), len(nc), sum(r['exit'] == 0 for r in res if r['control']), sum(1 for r in res if r['control'])))
