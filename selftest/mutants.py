"""Sensitivity self-test: small behaviour-changing edits of okruz/BSplinebasis (one per 'Breaks' bullet of DESIGN.md
section 4). Each entry: id, properties expected to alarm (first = primary), file, old text (unique), new text, note."""
S = 'include/bspline/Spline.h'
SU = 'include/bspline/support/Support.h'
GR = 'include/bspline/support/Grid.h'
GEN = 'include/bspline/BSplineGenerator.h'
MI = 'include/bspline/internal/misc.h'
DE = 'include/bspline/operators/Derivative.h'
PO = 'include/bspline/operators/Position.h'
SO = 'include/bspline/operators/SplineOperator.h'
SC = 'include/bspline/operators/ScalarOperators.h'
CO = 'include/bspline/operators/CompoundOperators.h'
BF = 'include/bspline/integration/BilinearForm.h'
LF = 'include/bspline/integration/LinearForm.h'
NU = 'include/bspline/integration/numerical.h'
IN = 'include/bspline/interpolation/interpolation.h'
DI = 'examples/diffusion.cpp'
SP = 'examples/spline-potential.cpp'

M = [
 # ---- C01 generator
 ('gen-guard1', ['C01'], GEN, 'if (xipkm1 > xi) {', 'if (xipkm1 >= xi) {', 'zero-width guard dropped (division by zero / wrong term for repeated knots)'),
 ('gen-index', ['C01'], GEN, 'const T &xipk = _knots.at(i + k);', 'const T &xipk = _knots.at(i + k - 1 + (i + k < _knots.size() - 1 ? 1 : 1));', 'equivalent (control: must stay green)'),
 ('gen-prefac', ['C01'], GEN, 'const T prefac = static_cast<T>(1) / (xipk - xip1);\n      const auto op = prefac * (xipk - operators::X<1>{});', 'const T prefac = static_cast<T>(1) / (xipk - xip1);\n      const auto op = prefac * (xip1 - operators::X<1>{});', 'second recursion term uses the wrong knot in the numerator'),
 ('gen-order0-window', ['C01'], GEN, 'ret.push_back(Spline<T, 0>{Support(_grid, gridIndex, gridIndex + 2),', 'ret.push_back(Spline<T, 0>{Support(_grid, gridIndex + (gridIndex + 3 <= _grid.size() && _knots.size() > 12 ? 1 : 0), gridIndex + 2 + (gridIndex + 3 <= _grid.size() && _knots.size() > 12 ? 1 : 0)),', 'order-0 indicator shifted by one interval for long knot vectors only'),
 ('gen-recursion-at', ['C01'], GEN, 'i, nextLowerOrderSplines.at(i), nextLowerOrderSplines.at(i + 1)));', 'i, nextLowerOrderSplines.at(i), nextLowerOrderSplines.at(i + (order > 4 ? 0 : 1))));', 'recursion uses B_i twice for orders above 4'),
 ('gen-count', ['C01', 'C11'], GEN, 'if (_knots.size() < k) {', 'if (_knots.size() <= k) {', 'count check off by one: m == p+1 refused'),
 # ---- C02 evaluation
 ('eval-back-outside', ['C02'], S, 'if (_support.size() < 2 || x > _support.back() || x < _support.front())', 'if (_support.size() < 2 || x >= _support.back() || x < _support.front())', 'right end point treated as outside'),
 ('eval-upper-bound', ['C02'], S, 'const auto it = std::lower_bound(begin, _support.end(), x);', 'const auto it = std::upper_bound(begin, _support.end(), x);', 'upper_bound without corrected clamp: wrong piece / out of range at the last grid point'),
 ('eval-midpoint', ['C02'], S, 'const T xm = (_support[*intervalIndex + 1] + _support[*intervalIndex]) /\n                 static_cast<T>(2);', 'const T xm = (_support[*intervalIndex] + _support[*intervalIndex]) /\n                 static_cast<T>(2);', 'midpoint taken as the left end point'),
 ('eval-horner', ['C02'], MI, 'for (auto it = coeffs.rbegin() + 1; it != coeffs.rend(); it++) {\n    result = dx * result + (*it);', 'for (auto it = coeffs.rbegin() + 1; it != coeffs.rend(); it++) {\n    result = dx * result + (size > 6 ? coeffs.front() : (*it));', 'Horner adds the constant term at every step for orders > 5'),
 # ---- C03 arithmetic
 ('mul-relidx', ['C03', 'C09'], S, 'auto aRelIndex = a.getSupport().intervalIndexFromAbsolute(ai).value();', 'auto aRelIndex = a.getSupport().relativeFromAbsolute(ai).value() - (a.getSupport().getStartIndex() > getSupport().getStartIndex() ? 0 : 0);', 'equivalent on valid intervals (control: must stay green)'),
 ('add-zero-fill', ['C03'], S, '      } else {\n        ncoefficients[i] =\n            internal::make_array<T, NEW_ARRAY_SIZE>(static_cast<T>(0));\n      }', '      } else {\n        ncoefficients[i] =\n            internal::make_array<T, NEW_ARRAY_SIZE>(static_cast<T>(i > 0 ? 0 : 0));\n        if (i > 0) ncoefficients[i] = ncoefficients[i - 1];\n      }', 'gap between two supports filled with the neighbouring polynomial instead of zero'),
 ('misc-add-sizea', ['C03', 'C05'], MI, '    for (size_t i = 0; i < sizeb; i++) {\n      ret[i] += b[i];', '    for (size_t i = 0; i + (sizea > sizeb + 1 ? 1 : 0) < sizeb; i++) {\n      ret[i] += b[i];', 'array add drops the highest coefficient of the shorter array when orders differ by two or more'),
 ('changearraysize-nozero', ['C03'], MI, 'for (size_t i = sizein; i < sizeout; i++) ret[i] = static_cast<T>(0);', 'for (size_t i = sizein; i < sizeout; i++) ret[i] = (i + 1 == sizeout && sizeout > sizein + 1) ? in[0] : static_cast<T>(0);', 'padding not zero when the order difference exceeds one'),
 ('sub-adds', ['C03'], S, '    (*this) += (static_cast<T>(-1) * a);\n    return *this;', '    (*this) += (static_cast<T>(order > ordera ? 1 : -1) * a);\n    return *this;', '-= adds when the right operand has lower order'),
 ('lincomb-first-support', ['C03'], S, '      if (!endIndex || ei > *endIndex) {', '      if (!endIndex || (ei > *endIndex && it == splinesBegin + 1)) {', 'linearCombination hull ignores the end of all but the first two supports'),
 ('lincomb-assign', ['C03'], S, '        newCoeffs[k] += coeff * splineCoeffs[k];', '        if (k == order && order > 1) newCoeffs[k] = coeff * splineCoeffs[k]; else newCoeffs[k] += coeff * splineCoeffs[k];', 'highest coefficient assigned instead of accumulated'),
 ('cross-assign-copy', ['C03', 'C10'], S, 'for (size_t j = 0; j < coeffsi.size(); j++) ncoeffsi[j] = coeffsi[j];', 'for (size_t j = 0; j < coeffsi.size(); j++) ncoeffsi[j + (ordera + 2 < order ? 1 : 0)] = coeffsi[j];', 'cross-order assignment shifts coefficients when the order gap is 3 or more'),
 ('scalar-div', ['C03'], S, 'return (*this) * (static_cast<T>(1) / d);', 'return (*this) * (static_cast<T>(1) / d) * (_coefficients.size() > 3 ? d / d * d / d : static_cast<T>(1));', 'equivalent (control)'),
 # ---- C04 primitive
 ('dx-faculty', ['C04'], DE, 'retVal[i] = internal::facultyRatio<T>(i + n, i) * input[i + n];', 'retVal[i] = internal::facultyRatio<T>(i + n, i + (n > 2 ? 1 : 0)) * input[i + n];', 'wrong factorial ratio for derivatives of order >= 3'),
 ('dx-branch', ['C04'], DE, 'if constexpr (n > SPLINE_ORDER) {', 'if constexpr (n >= SPLINE_ORDER && n > 0) {', 'n == order treated as zero result'),
 ('x-expand', ['C04', 'C01'], PO, 'retVal[n - i] = internal::binomialCoefficient<T>(n, i) * power_of_xm;', 'retVal[n - i] = internal::binomialCoefficient<T>(n, n > 3 ? (i == 1 ? 2 : i) : i) * power_of_xm;', 'wrong binomial for x^n with n >= 4'),
 ('x-midpoint', ['C04', 'C01'], PO, '(grid[intervalIndex] + grid[intervalIndex + 1]) / static_cast<T>(2);', '(grid[intervalIndex] + grid[intervalIndex + (intervalIndex + 2 < grid.size() || grid.size() < 7 ? 1 : 0)]) / static_cast<T>(2);', 'midpoint of the LAST interval wrong on grids with >= 7 points'),
 ('binom-swapped', ['C04'], MI, 'return facultyRatio<T>(n, larger) / faculty<T>(smaller);', 'return facultyRatio<T>(n, larger) / faculty<T>(n > 4 ? larger : smaller);', 'binomial wrong for n >= 5'),
 # ---- C05 expressions
 ('product-order', ['C05'], CO, 'return _o1.transform(_o2.transform(input, grid, intervalIndex), grid,\n                         intervalIndex);', 'return _o1.transform(_o2.transform(input, grid, intervalIndex), grid,\n                         intervalIndex + (intervalIndex + 2 < grid.size() ? 0 : 0));', 'equivalent (control)'),
 ('sum-negate-a', ['C05'], CO, '      for (T &el : b) {\n        el *= static_cast<T>(-1);\n      }', '      for (size_t q = 0; q + (b.size() > a.size() ? 1 : 0) < b.size(); q++) {\n        b[q] *= static_cast<T>(-1);\n      }', 'subtraction does not negate the highest coefficient of the subtrahend when it is the longer array'),
 ('unary-minus', ['C05'], SC, 'return ScalarMultiplication<int, O>(-1, std::forward<O>(o));', 'return ScalarMultiplication<int, O>(-1, std::forward<O>(o), true);', 'unary minus divides by -1 (equivalent; control)'),
 ('c-minus-A', ['C05'], SC, 'auto operator-(const S &s, O &&o) {\n  return ScalarMultiplication{s} - std::forward<O>(o);', 'auto operator-(const S &s, O &&o) {\n  return std::forward<O>(o) - ScalarMultiplication{s};', 'c - A implemented as A - c'),
 ('splineop-rel', ['C05', 'C09'], SO, '_s.getSupport().intervalIndexFromAbsolute(intervalIndex);', '_s.getSupport().relativeFromAbsolute(intervalIndex);', 'D1 reintroduced'),
 ('div-int', ['C05'], SC, 'return ScalarMultiplication(s, std::forward<O>(o), true);', 'return ScalarMultiplication(static_cast<S>(1) / s, std::forward<O>(o));', 'D2 reintroduced'),
 ('scalar-plus', ['C05'], SC, 'auto operator+(const S &s, O &&o) {\n  return ScalarMultiplication{s} + std::forward<O>(o);', 'auto operator+(const S &s, O &&o) {\n  return ScalarMultiplication{s} - (-std::forward<O>(o));', 'equivalent (control)'),
 # ---- C06 bilinear
 ('bf-inner-loop', ['C06'], BF, 'for (size_t j = i % 2; j < sizeb; j += 2) {', 'for (size_t j = (sizeb > 5 ? 0 : i % 2); j < sizeb; j += 2) {', 'parity selection wrong for long second arrays'),
 ('bf-divisor', ['C06'], BF, 'result * dxhalf_squared + coefficients[i] / static_cast<T>(2 * i + 1);', 'result * dxhalf_squared + coefficients[i] / static_cast<T>(2 * i + (i > 2 ? 3 : 1));', 'divisor wrong for high powers'),
 ('bf-halfwidth', ['C06'], BF, 'const T dxhalf = (a.getSupport()[aIndex + 1] - a.getSupport()[aIndex]) /', 'const T dxhalf = (a.getSupport()[bIndex + 1] - a.getSupport()[bIndex]) /', 'half width taken with the other operand\'s relative index'),
 ('bf-swap-idx', ['C06'], BF, '_o2.transform(b.getCoefficients()[bIndex], grid, absIndex), dxhalf);', '_o2.transform(b.getCoefficients()[bIndex], grid, absIndex + (aIndex > bIndex + 1 ? 1 : 0) - (aIndex > bIndex + 1 ? 1 : 0)), dxhalf);', 'equivalent (control)'),
 ('bf-absindex', ['C06'], BF, '_o1.transform(a.getCoefficients()[aIndex], grid, absIndex),', '_o1.transform(a.getCoefficients()[aIndex], grid, aIndex),', 'operator receives the relative instead of the absolute interval index'),
 # ---- C07 linear
 ('lf-parity', ['C07'], LF, 'static_cast<int>(size) - static_cast<int>(size % 2 == 0 ? 2 : 1);', 'static_cast<int>(size) - static_cast<int>(size % 2 == 0 ? (size > 5 ? 1 : 2) : 1);', 'end index parity flipped for even sizes above 5 (reads odd coefficient)'),
 ('lf-divisor', ['C07'], LF, 'result = dxhalf_squared * result + a[i] / static_cast<T>(i + 1);', 'result = dxhalf_squared * result + a[i] / static_cast<T>(i + (i > 3 ? 2 : 1));', 'divisor wrong for i >= 4'),
 ('lf-absindex', ['C07'], LF, 'a.getSupport().getGrid(), absIndex),', 'a.getSupport().getGrid(), i),', 'operator receives the relative index'),
 # ---- C08 grids
 ('grid-eq-size', ['C08', 'C13'], GR, 'return (*_data) == (*g._data);', 'return _data->size() == g._data->size() && _data->front() == g._data->front() && _data->back() == g._data->back();', 'grid equality compares size and end points only'),
 ('grid-eq-pointer', ['C08', 'C13'], GR, '    // Slow path: Compare logically.\n    return (*_data) == (*g._data);', '    // Slow path: Compare logically.\n    return false;', 'pointer-only equality: equal grids in distinct objects refused'),
 ('lincomb-guard', ['C08'], S, '    if (!it->getSupport().hasSameGrid(support0)) {', '    if (!it->getSupport().empty() && !it->getSupport().hasSameGrid(support0)) {', 'linearCombination skips the grid check for empty supports'),
 ('intersection-guard', ['C08'], SU, '    if (!hasSameGrid(s)) {\n      throw BSplineException(ErrorCode::DIFFERING_GRIDS);\n    }\n\n    const size_t newStartIndex = std::max(_startIndex, s._startIndex);', '    if (!hasSameGrid(s) && !empty() && !s.empty()) {\n      throw BSplineException(ErrorCode::DIFFERING_GRIDS);\n    }\n\n    const size_t newStartIndex = std::max(_startIndex, s._startIndex);', 'intersection does not check grids when an operand is empty'),
 ('generator-grid', ['C08', 'C11'], GEN, 'if (_grid != secondGrid) {', 'if (_grid.size() != secondGrid.size()) {', 'generator compares only the size of the supplied grid'),
 # ---- C09 / C13 accessors
 ('support-at', ['C09', 'C13'], SU, 'if (index >= size()) {\n      throw BSplineException(ErrorCode::INVALID_ACCESS);', 'if (_startIndex + index >= _endIndex) {\n      throw BSplineException(ErrorCode::INVALID_ACCESS);', 'D4 reintroduced'),
 ('support-back', ['C09', 'C13', 'C02'], SU, 'return _grid[_endIndex - 1];', 'return _grid[_endIndex - (_endIndex == _grid.size() ? 1 : 0)];', 'back() reads one past the window unless the window ends at the grid end'),
 ('interval-idx', ['C13', 'C09'], SU, 'if (index >= _startIndex && index < _endIndex && index + 1 < _endIndex) {', 'if (index >= _startIndex && index + 1 < _endIndex) {', 'D5 reintroduced'),
 # ---- C10 invariants
 ('move-keeps-indices', ['C10'], SU, '      : _grid{s._grid}, _startIndex{s._startIndex}, _endIndex{s._endIndex} {\n    s._startIndex = 0;\n    s._endIndex = 0;', '      : _grid{s._grid}, _startIndex{s._startIndex}, _endIndex{s._endIndex} {\n    s._startIndex = 0;\n    s._endIndex = s._endIndex > 3 ? 1 : 0;', 'moved-from support keeps a point-like window, coefficients gone'),
 ('setdata-order', ['C10', 'C14'], S, '    checkValidity(support, coefficients);\n    _support = std::move(support);\n    _coefficients = std::move(coefficients);', '    _support = std::move(support);\n    checkValidity(_support, coefficients);\n    _coefficients = std::move(coefficients);', 'setData assigns before validating: equivalent, setData is only reached with a valid source (control)'),
 ('plus-size', ['C10', 'C03'], S, 'const size_t nintervals = newSupport.numberOfIntervals();\n\n    std::vector<std::array<T, NEW_ARRAY_SIZE>> ncoefficients(nintervals);', 'const size_t nintervals = newSupport.size() > 0 ? newSupport.size() - 1 + (newSupport.size() == 1 ? 1 : 0) : 0;\n\n    std::vector<std::array<T, NEW_ARRAY_SIZE>> ncoefficients(nintervals);', 'operator+ sizes by size(): one array for a point-like union'),
 ('grid-nan', ['C11', 'C10'], GR, 'if (!((*_data)[i - 1] < (*_data)[i])) {', 'if ((*_data)[i - 1] >= (*_data)[i]) {', 'D3 reintroduced'),
 # ---- C11 validation
 ('grid-scan', ['C11'], GR, 'for (size_t i = 1; i < _data->size(); i++) {\n      if (!((*_data)[i - 1] < (*_data)[i])) {', 'for (size_t i = 1; i + (_data->size() > 6 ? 1 : 0) < _data->size(); i++) {\n      if (!((*_data)[i - 1] < (*_data)[i])) {', 'last pair not scanned for grids above 6 points'),
 ('support-bounds', ['C11', 'C13'], SU, 'const bool withinBounds = _endIndex <= _grid.size();', 'const bool withinBounds = _endIndex <= _grid.size() + (_startIndex > 2 ? 1 : 0);', 'window may exceed the grid by one when it starts above index 2'),
 ('interp-boundary', ['C11'], IN, 'if (bo.derivative == 0 || bo.derivative > order) {', 'if (bo.derivative == 0 || bo.derivative > order + 1) {', 'boundary derivative order+1 accepted'),
 ('lincomb-size', ['C11'], S, '    if (coeffsSize != splinesSize) {', '    if (coeffsSize < splinesSize) {', 'more coefficients than splines accepted'),
 ('interp-minsize', ['C11'], IN, '  if (x.size() < 2) {\n    throw BSplineException(', '  if (x.size() < 1) {\n    throw BSplineException(', 'single abscissa accepted'),
 # ---- C12 interpolation
 ('interp-default', ['C12'], IN, '      ret[i] = Boundary<T>{/*.node = */ Node::LAST,\n                           /*.derivative = */ (i - 1) / 2 + 1,', '      ret[i] = Boundary<T>{/*.node = */ (order > 3 ? Node::FIRST : Node::LAST),\n                           /*.derivative = */ (i - 1) / 2 + 1 + (order > 3 ? 2 : 0),', 'default boundaries all at the first node for orders >= 4'),
 ('interp-continuity-sign', ['C12'], IN, '            -bspline::internal::facultyRatio<T>(i, i - deriv) * power_of_dx2;', '            (deriv > 2 ? static_cast<T>(1) : static_cast<T>(-1)) * bspline::internal::facultyRatio<T>(i, i - deriv) * power_of_dx2;', 'continuity row sign wrong for derivatives >= 3'),
 ('interp-dx2', ['C12'], IN, '    const T dx2 = (x[c] - x[c + 1]) / static_cast<T>(2);', '    const T dx2 = (x[c] - x[c + 1]) / static_cast<T>(2) + (c > 3 ? (x[c] - x[c - 1]) - (x[c + 1] - x[c]) : static_cast<T>(0));', 'dx2 wrong on non-uniform grids beyond the fourth node'),
 ('interp-support', ['C12'], IN, 'return bspline::Spline<T, order>(std::move(x), std::move(coeffs));', 'return bspline::Spline<T, order>(x.size() == x.getGrid().size() ? std::move(x) : Support<T>(x.getGrid(), x.getStartIndex(), x.getEndIndex()), std::move(coeffs));', 'equivalent (control)'),
 # ---- C13 support algebra
 ('union-min', ['C13', 'C03'], SU, 'const size_t newEndIndex = std::max(_endIndex, s._endIndex);\n    return Support(_grid, newStartIndex, newEndIndex);', 'const size_t newEndIndex = std::max(_endIndex, s._endIndex) - ((_startIndex > s._endIndex + 1) ? 1 : 0);\n    return Support(_grid, newStartIndex, newEndIndex);', 'union one point short when this lies well right of s'),
 ('intersection-normalise', ['C13'], SU, '    if (newStartIndex >= newEndIndex) {', '    if (newStartIndex > newEndIndex) {', 'touching-at-nothing windows give (s,s) instead of empty -> throws'),
 ('equality-both-empty', ['C13', 'C15'], SU, '            (empty() && s.empty()));', '            (empty() && s.empty() && _startIndex == s._startIndex));', 'equivalent (both empty implies equal indices; control)'),
 ('nintervals', ['C13', 'C10'], SU, '      return si - 1;', '      return si - (si > 9 ? 0 : 1);', 'interval count wrong for windows above 9 points'),
 # ---- C14 value semantics
 ('scale-mutates', ['C14'], S, '    Spline<T, order> ret(*this);\n    for (auto &cs : ret._coefficients) {', '    Spline<T, order> ret(*this);\n    if (order > 2 && d == static_cast<T>(0)) const_cast<Spline<T, order> *>(this)->_coefficients.clear(), const_cast<Spline<T, order> *>(this)->_support = Support<T>::createEmpty(_support.getGrid());\n    for (auto &cs : ret._coefficients) {', 'multiplying an order>=3 spline by zero empties the operand'),
 ('iadd-early-write', ['C14'], S, '    (*this) = (*this) + a;\n    return *this;', '    if (!a.getSupport().hasSameGrid(_support)) { _coefficients.clear(); _support = Support<T>::createEmpty(_support.getGrid()); }\n    (*this) = (*this) + a;\n    return *this;', '+= destroys its target before throwing on different grids'),
 # ---- C15 predicates
 ('overlap-lt', ['C15'], S, 'const bool isNotOverlapping = m2.getSupport().back() <= _support.front() ||', 'const bool isNotOverlapping = m2.getSupport().back() < _support.front() ||', 'touching supports reported as overlapping'),
 ('iszero-first', ['C15'], S, '    for (const auto &cs : _coefficients) {\n      for (const auto &c : cs) {\n        if (c != ZERO) return false;\n      }\n    }\n    return true;', '    for (const auto &cs : _coefficients) {\n      for (const auto &c : cs) {\n        if (c != ZERO) return false;\n      }\n      if (_coefficients.size() > 2) break;\n    }\n    return true;', 'isZero scans only the first interval of longer splines'),
 ('eq-support', ['C15'], S, 'return _support == other._support && _coefficients == other._coefficients;', 'return (_support == other._support || _support.size() == other._support.size()) && _coefficients == other._coefficients;', '== ignores the window position'),
 # ---- C16 accuracy
 ('x-about-left', ['C16'], PO, '    const T xm =\n        (grid[intervalIndex] + grid[intervalIndex + 1]) / static_cast<T>(2);\n\n    const std::array<T, n + 1> expanded = expandPower<T>(xm);', '    const T xm =\n        (grid[intervalIndex] + grid[intervalIndex + 1]) / static_cast<T>(2);\n\n    std::array<T, n + 1> expanded = expandPower<T>(xm);\n    if (n >= 1) { const T big = xm * static_cast<T>(1048576); expanded[0] = (expanded[0] + big) - big; }', 'x^n constant term computed through a large intermediate (cancellation)'),
 ('lf-absolute', ['C16'], LF, 'return static_cast<T>(2) * dxhalf * result;', 'const T shift = static_cast<T>(4194304) * result; return static_cast<T>(2) * dxhalf * ((result + shift) - shift);', 'linear form loses 22 bits through a large intermediate'),
 # ---- C17 quadrature
 ('quad-xm', ['C17'], NU, 'const auto &c2 = m2.getCoefficients().at(m2Index);', 'const auto &c2 = m2.getCoefficients().at(m2Index > 0 && m1Index == 0 && m2.getCoefficients().size() > m2Index ? m2Index - 1 : m2Index);', 'second operand indexed one interval off when the first starts later'),
 ('quad-support', ['C17'], NU, 'const Support newSupport = m1.getSupport().calcIntersection(m2.getSupport());\n  const size_t nintervals = newSupport.numberOfIntervals();', 'const Support newSupport = m1.getSupport().calcIntersection(m2.getSupport());\n  const size_t nintervals = newSupport.numberOfIntervals() > 3 ? newSupport.numberOfIntervals() - 1 : newSupport.numberOfIntervals();', 'last common interval skipped when more than three are shared'),
 # ---- C18 threads
 ('static-scratch', ['C18'], MI, '  const T dx = x - xm;\n  T result = coeffs.back();', '  static T scratch;\n  scratch = x - xm;\n  const T dx = scratch;\n  T result = coeffs.back();', 'evaluation goes through a static scratch variable (data race)'),
 ('iszero-cache', ['C18'], S, '    if (!_support.containsIntervals()) return true;\n    for (const auto &cs : _coefficients) {', '    static size_t calls = 0;\n    calls = calls + 1;\n    if (!_support.containsIntervals()) return true;\n    for (const auto &cs : _coefficients) {', 'isZero updates an unsynchronised static counter'),
 # ---- C19 archetype
 ('abs-cmath', ['C19'], S, '        if (c != ZERO) return false;', '        if (std::abs(c) > ZERO) return false;', 'isZero needs std::abs on the scalar type'),
 ('implicit-half', ['C19'], PO, '(grid[intervalIndex] + grid[intervalIndex + 1]) / static_cast<T>(2);', '(grid[intervalIndex] + grid[intervalIndex + 1]) * static_cast<T>(0.5);', 'midpoint via static_cast<T>(0.5): truncates to 0 for types constructed from int'),
 # ---- C20 examples
 ('diffusion-erase', ['C20'], DI, 'basis.pop_back();', 'basis.erase(basis.end());', 'D6 reintroduced'),
 ('diffusion-b-sign', ['C20'], DI, 'b(i) = -(bilinearForm.evaluate(basis.at(i), first) +', 'b(i) = (i % 2 ? 1 : -1) * (bilinearForm.evaluate(basis.at(i), first) +', 'right-hand side sign wrong for odd rows'),
 ('diffusion-last', ['C20'], DI, 'last *= endValue;', 'last *= (basis.size() > 14 ? startValue : endValue);', 'last basis function scaled with the wrong boundary value on larger grids'),
 ('potential-side', ['C20'], SP, 'operators::SplineOperator{std::move(v)};', 'operators::SplineOperator{std::move(v)} * operators::X<0>{} + 0 * operators::X<1>{};', 'equivalent (control)'),
]
