#!/usr/bin/env python3
"""Confirms an independently written breaking change and runs the checks against it.
usage: tools/seedcheck.py <seed-out-dir e.g. /tmp/seed-out/C03-a> <property> [more properties to run] [--tier quick]
Steps (all in scratch worktrees outside /repo and /verif):
 1. worktree /tmp/seed/<ID> (clean HEAD): apply patch, rebuild the repository's test binary, run the 28 tests (must pass)
 2. compile demo.cpp against the patched and against the clean tree: must FAIL (exit != 0) / PASS (exit 0)
 3. VERIF_REPO=<patched worktree> ./check <property> <tier> for each property; record exit codes
Writes /verif/seeded/<name>/{patch.diff,demo.cpp,meta.txt,meta.json}."""
import json, os, re, shutil, subprocess, sys, time
args = [a for a in sys.argv[1:] if not a.startswith('--')]
tier = 'quick'
if '--tier' in sys.argv: tier = sys.argv[sys.argv.index('--tier') + 1]; args = [a for a in args if a != tier]
src, props = args[0].rstrip('/'), args[1:]
name = os.path.basename(src); pid = name.split('-')[0]
wt = '/tmp/seed/' + pid
ROOT = os.path.dirname(os.path.dirname(os.path.abspath(__file__)))
def sh(c, **kw): return subprocess.run(c, shell=True, capture_output=True, text=True, **kw)
sh('git -C %s checkout -- .' % wt)
first = open(os.path.join(src, 'demo.cpp')).readline()
m = re.search(r'(g\+\+|clang\+\+)[^\n]*', first)
cc = m.group(0).split('&&')[0].strip() if m else 'g++ -std=c++17 -I%s/include demo.cpp -o demo' % wt
def demo(tag):
    d = '/tmp/seed-demo-%s-%s' % (name, tag); shutil.rmtree(d, ignore_errors=True); os.makedirs(d)
    shutil.copy(os.path.join(src, 'demo.cpp'), d)
    c = sh(cc, cwd=d)
    if c.returncode != 0: return 'compile-error: ' + c.stderr[-300:], None
    exe = [f for f in os.listdir(d) if os.access(os.path.join(d, f), os.X_OK) and not f.endswith('.cpp')]
    r = sh('timeout 600 ./' + exe[0], cwd=d)
    shutil.rmtree(d, ignore_errors=True)
    return r.returncode, (r.stdout + r.stderr)[-200:]
clean = demo('clean')
a = sh('git -C %s apply %s' % (wt, os.path.join(src, 'patch.diff')))
assert a.returncode == 0, a.stderr
if not os.path.isdir(wt + '/_build'):
    sh('cd %s && cmake -G Ninja -B _build -DCMAKE_BUILD_TYPE=RelWithDebInfo -DCMAKE_CXX_FLAGS=-Wno-error' % wt)
b = sh('ninja -C %s/_build -j8 test 2>&1 | tail -5' % wt)
t = sh('%s/_build/tests/test 2>&1 | tail -3' % wt)
tests_pass = 'No errors detected' in t.stdout
patched = demo('patched')
checks = {}
for p in props:
    t0 = time.time()
    r = subprocess.run([os.path.join(ROOT, 'check'), p, tier], capture_output=True, text=True, cwd=ROOT, env=dict(os.environ, VERIF_REPO=wt, VERIF_JOBS='8'))
    reason = [l.strip() for l in r.stderr.splitlines() if l.strip().startswith('reason:')]
    checks[p] = dict(exit=r.returncode, caught=(r.returncode == 1 and 'VIOLATION' in r.stdout), wall_s=round(time.time() - t0), first_reason=(reason[0][:400] if reason else ''))
sh('git -C %s checkout -- .' % wt)
out = os.path.join(ROOT, 'seeded', name); os.makedirs(out, exist_ok=True)
for f in ('patch.diff', 'demo.cpp', 'meta.txt'):
    if os.path.exists(os.path.join(src, f)): shutil.copy(os.path.join(src, f), out)
meta = dict(name=name, breaks_property=pid, demo_compile_cmd=cc, tests_pass_with_change=tests_pass, demo_on_clean_tree=clean, demo_with_change=patched,
            confirmed=bool(tests_pass and clean[0] == 0 and patched[0] not in (0, None) and (pid == 'C19' or not str(patched[0]).startswith('compile'))),  # C19: 'does not compile for a conforming scalar type' IS the demonstrated failure
            checks={tier: checks}, ran='tools/seedcheck.py %s %s (worktree %s, repository tests rebuilt with the change; checks run with VERIF_REPO=<worktree>)' % (src, ' '.join(props), wt))
mp = os.path.join(out, 'meta.json')
if os.path.exists(mp):
    oldm = json.load(open(mp)); oc = oldm.get('checks', {}); oc.update(meta['checks']); meta['checks'] = oc
    if 'needs_to_manifest' in oldm: meta['needs_to_manifest'] = oldm['needs_to_manifest']
json.dump(meta, open(mp, 'w'), indent=1)
print(name, 'confirmed=%s' % meta['confirmed'], 'tests_pass=%s' % tests_pass, 'demo clean/patched=', clean[0], patched[0], {p: ('CAUGHT' if c['caught'] else 'missed exit=%d' % c['exit']) for p, c in checks.items()})
for p, c in checks.items(): print('   ', p, c['first_reason'][:200])
