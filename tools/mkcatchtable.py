#!/usr/bin/env python3
"""Renders the measured sensitivity (selftest/results-quick.json, selftest/tests-pass.json, seeded/*/meta.json) as
markdown for DESIGN.md section 11: prints to stdout."""
import json, os, sys, glob
ROOT = os.path.dirname(os.path.dirname(os.path.abspath(__file__)))
sys.path.insert(0, os.path.join(ROOT, 'selftest'))
import mutants
res = {}
for f in ('results-quick.json', 'results-thorough.json'):
    p = os.path.join(ROOT, 'selftest', f)
    if os.path.exists(p):
        for r in json.load(open(p)):
            res.setdefault(r['mutant'], {})[(r['property'], f.split('-')[1].split('.')[0])] = r
tp = os.path.join(ROOT, 'selftest', 'tests-pass.json')
tests = json.load(open(tp)) if os.path.exists(tp) else {}
print('| mutant | file | what | suite still passes | check -> verdict |')
print('|---|---|---|---|---|')
nc = ncaught = 0
for m in mutants.M:
    mid, props, path, old, new, note = m
    t = tests.get(mid)
    ts = '?' if not t else ('yes' if t['tests_pass'] else ('no (compile)' if not t['compiles'] else 'NO - suite catches it'))
    v = []
    for (prop, tier), r in sorted(res.get(mid, {}).items()):
        verdict = 'green (control)' if r['control'] and r['exit'] == 0 else ('caught' if r['caught'] else 'MISSED (exit %d)' % r['exit'])
        v.append('%s %s: %s' % (prop, tier, verdict))
        if not r['control']:
            nc += 1; ncaught += r['caught']
    print('| %s | %s | %s | %s | %s |' % (mid, os.path.basename(path), note.replace('|', '/'), ts, '; '.join(v)))
print()
print('non-control runs caught: %d / %d' % (ncaught, nc))
print()
print('| seeded change | breaks | needs, in order to manifest | suite passes / demo fails with it / demo passes without | checks run -> verdict |')
print('|---|---|---|---|---|')
for mp in sorted(glob.glob(os.path.join(ROOT, 'seeded', '*', 'meta.json'))):
    m = json.load(open(mp))
    v = []
    for tier, cs in m.get('checks', {}).items():
        for p, c in cs.items():
            v.append('%s %s: %s' % (p, tier, 'caught' if c['caught'] else 'MISSED (exit %d)' % c['exit']))
    print('| %s | %s | %s | %s / %s / %s | %s |' % (m['name'], m['breaks_property'], m.get('needs_to_manifest', '').replace('|', '/').replace('\n', ' '),
          'yes' if m['tests_pass_with_change'] else 'NO', 'yes' if m['demo_with_change'][0] not in (0, None) else 'NO', 'yes' if m['demo_on_clean_tree'][0] == 0 else 'NO', '; '.join(v)))
