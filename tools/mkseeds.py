#!/usr/bin/env python3
"""Writes the committed libFuzzer seed corpus corpus/history/*: a few short valid histories (5 bytes per op:
opcode, a, b, c, d) in the encoding of harness/fuzz_history.cpp. Opcode numbers are read from harness/hist.h."""
import os, re
HERE = os.path.dirname(os.path.dirname(os.path.abspath(__file__)))
src = open(os.path.join(HERE, 'harness', 'hist.h')).read()
enum = re.search(r'enum Code \{(.*?)CODE_COUNT', src, re.S).group(1)
names = [n.strip() for n in enum.replace('\n', ' ').split(',') if n.strip()]
C = {n: i for i, n in enumerate(names)}
def h(*ops):
    b = bytearray()
    for op in ops:
        name, args = op[0], list(op[1:]) + [0] * (5 - len(op))
        b += bytes([C[name]] + [x & 255 for x in args[:4]])
    return bytes(b)
base = [('G_NEW', 4, 0, 8, 0),            # grid of 6 points
        ('S_WHOLE', 0), ('S_NEW', 0, 1, 2), ('S_NEW', 0, 2, 3), ('S_NEW', 0, 0, 1), ('S_EMPTY', 0),
        ('P_NEW', 1, 0, 7), ('P_NEW', 0, 1, 9), ('P_NEW', 1, 1, 3), ('P_NEW', 2, 2, 5), ('P_NEW', 3, 0, 11), ('P_NEW', 0, 3, 4)]
seeds = {
    'factor-ends-inside-operand': base + [('P_APPLY_SPLINEOP', 1, 0, 0, 0), ('P_APPLY_SPLINEOP', 5, 1, 0, 0), ('P_APPLY_SPLINEOP', 2, 0, 0, 0), ('P_APPLY_SPLINEOP', 3, 1, 0, 1)],
    'arith-cross-order': base + [('P_ADD', 1, 0, 0, 0), ('P_SUB', 2, 1, 0, 0), ('P_MUL', 1, 2, 0, 0), ('P_IADD', 3, 1, 0, 0), ('P_ISUB', 2, 0, 0, 0), ('P_CROSS_ASSIGN', 3, 1, 0, 0)],
    'moves': base + [('P_MOVE', 1, 0, 0), ('P_MOVE_REUSE', 1, 0, 0, 0), ('P_MOVE_ASSIGN', 1, 1, 0), ('P_SELF_ASSIGN', 2, 0, 0), ('P_SELF_MOVE_ASSIGN', 3, 0, 0), ('S_MOVE', 1), ('S_MOVE_ASSIGN', 0, 2), ('P_IADD', 1, 1, 0, 1)],
    'two-grids': base + [('G_NEW', 3, 1, 2, 1), ('G_EQUAL_DISTINCT', 0), ('S_WHOLE', 1), ('S_WHOLE', 2), ('P_NEW', 1, 6, 2), ('P_NEW', 1, 7, 2), ('P_ADD', 1, 1, 0, 2), ('P_IADD', 1, 1, 0, 2), ('P_BILFORM', 1, 1, 0, 2), ('S_UNION', 0, 6), ('P_LINCOMB', 1, 3, 0, 1)],
    'forms-and-accessors': base + [('P_LINFORM', 1, 2, 0), ('P_LINFORM', 3, 3, 0), ('P_BILFORM', 1, 2, 0, 0), ('P_BILFORM', 3, 0, 0, 1), ('S_ACCESS', 1, 3, 0), ('S_ACCESS', 2, 5, 1), ('S_CONVERT', 1, 3, 0), ('G_ACCESS', 0, 6, 2), ('P_EVAL', 1, 3, 0, 1), ('P_FRONTBACK', 0, 0, 3)],
    'invalid-calls': base + [('G_NEW_INVALID', 3, 1, 2, 1), ('S_NEW_INVALID', 0, 2, 1, 3), ('P_NEW_BADCOUNT', 1, 0, 3, 1), ('P_LINCOMB_BAD', 1, 2, 0, 1), ('P_IADD', 1, 1, 0, 0), ('P_ISCALE', 1, 0, 0, 3)],
    'evaluate-then-mutate': base + [('P_EVAL_MUTATE', 1, 0, 0, 1), ('P_EVAL_MUTATE', 2, 4, 0, 0), ('P_EVAL_MUTATE', 3, 9, 0, 2), ('P_EVAL_MUTATE', 2, 13, 0, 1), ('P_EVAL_MUTATE', 3, 16, 0, 0), ('P_EVAL', 1, 3, 0, 1)],
    'interpolate-and-gaps': base + [('P_INTERPOLATE', 0, 1, 3, 1), ('P_INTERPOLATE', 2, 0, 7, 0), ('P_INTERPOLATE', 1, 4, 2, 2), ('S_NEW', 0, 4, 1), ('P_NEW', 1, 6, 5), ('P_ADD', 1, 1, 1, 3), ('P_SUB', 1, 1, 3, 1), ('P_IADD', 1, 1, 1, 3), ('G_NEW_INVALID', 3, 1, 2, 4), ('G_NEW_INVALID', 3, 1, 0, 5)],
    'regrid': base + [('G_NEW', 3, 1, 2, 1), ('S_WHOLE', 1), ('P_NEW', 1, 6, 2), ('P_NEW', 2, 6, 4), ('P_REGRID', 1, 0, 0, 1), ('P_REGRID', 3, 2, 0, 1), ('P_REGRID', 12, 4, 1, 0), ('P_REGRID', 5, 6, 0, 2), ('P_REGRID', 6, 8, 1, 1), ('P_ADD', 1, 1, 0, 2)],
    'apply-and-lincomb': base + [('P_APPLY', 1, 0, 0), ('P_APPLY', 2, 4, 0), ('P_APPLY', 3, 5, 0), ('P_APPLY', 0, 6, 1), ('P_LINCOMB', 1, 3, 0, 5), ('P_SCALE', 1, 1, 0, 35), ('P_DIV', 2, 2, 0, 3), ('P_NEG', 0, 0, 1), ('P_COPY', 1, 0, 0), ('P_ISCALE', 1, 0, 2, 3)],
}
out = os.path.join(HERE, 'corpus', 'history')
os.makedirs(out, exist_ok=True)
for n, ops in seeds.items():
    open(os.path.join(out, n), 'wb').write(h(*ops))
print('wrote', len(seeds), 'seeds; opcodes:', len(names))
