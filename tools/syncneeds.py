#!/usr/bin/env python3
"""Copies seeded/needs.json[<name>] into seeded/<name>/meta.json as needs_to_manifest (what the change needs in order to manifest)."""
import json, os, glob
ROOT = os.path.dirname(os.path.dirname(os.path.abspath(__file__)))
needs = json.load(open(os.path.join(ROOT, 'seeded', 'needs.json')))
n = 0
for mp in sorted(glob.glob(os.path.join(ROOT, 'seeded', '*', 'meta.json'))):
    m = json.load(open(mp))
    if m['name'] in needs and m.get('needs_to_manifest') != needs[m['name']]:
        m['needs_to_manifest'] = needs[m['name']]
        json.dump(m, open(mp, 'w'), indent=1); n += 1
print('updated', n)
