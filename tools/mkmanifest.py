#!/usr/bin/env python3
"""Regenerates MANIFEST.json from harness/props.py (single source of truth)."""
import json, os, sys
HERE = os.path.dirname(os.path.dirname(os.path.abspath(__file__)))
sys.path.insert(0, os.path.join(HERE, 'harness'))
import props
ids = [json.loads(l)['id'] for l in open(os.path.join(HERE, 'properties.jsonl'))]
checks, na = [], []
for pid in ids:
    P = props.PROPS.get(pid)
    if not P or not P.get('claimed', True):
        na.append(dict(property_id=pid, reason=(P or {}).get('na_reason', 'check not built yet (work in progress; design in DESIGN.md section 4)')))
        continue
    checks.append(dict(
        property_id=pid,
        quick_cmd='./check %s quick' % pid,
        thorough_cmd='./check %s thorough' % pid,
        evidence_file='/verif/evidence/%s.json' % pid,
        replay_cmd_template='./check %s --replay {path}' % pid,
        engine=P.get('engine', 'rapidcheck'),
        level_claimed=dict(category=P.get('level', 'exploration'), text=P['level_text'], design_ref='DESIGN.md section 4 (%s)' % pid),
        level_note=P['level_note'],
        technique=P['technique']))
m = dict(
    version=1,
    setup_cmd='python3 -m py_compile check harness/props.py tools/mkmanifest.py && mkdir -p build replays evidence',
    hooks=dict(guard='BSPLINE_VERIF_HOOKS',
               enable='no source hooks are needed: every property is observable through the public API; checks compile the headers of /repo as they are',
               baseline_off_cmd='cmake --build /repo/_build && ctest --test-dir /repo/_build/tests -j8 --timeout 900',
               source_commits=[], add_only=True),
    engines=[
        dict(name='rapidcheck', path='/usr/include/rapidcheck.h', serves_properties=[c['property_id'] for c in checks],
             kind_free_text='property-based testing library (generators, shrinking); harnesses under harness/*.cpp'),
        dict(name='libFuzzer', path='clang -fsanitize=fuzzer', serves_properties=[p for p in ('C08', 'C09', 'C10', 'C14') if any(c['property_id'] == p for c in checks)],
             kind_free_text='coverage-guided fuzzing of API call histories'),
    ],
    checks=checks,
    notes='All checks are generated-input searches against explicit oracles (exact rational reference model). See DESIGN.md. Fixes of genuine defects are the fix: commits in /repo, listed in known_findings.txt.',
    not_applicable=na)
json.dump(m, open(os.path.join(HERE, 'MANIFEST.json'), 'w'), indent=1)
print('claimed', len(checks), 'not_applicable', len(na))
