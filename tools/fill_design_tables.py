#!/usr/bin/env python3
"""Replaces the MUTATION_TABLE / SEEDED_TABLE blocks of DESIGN.md (between marker comments) with the current tables."""
import subprocess, os, re
ROOT = os.path.dirname(os.path.dirname(os.path.abspath(__file__)))
out = subprocess.run(['python3', os.path.join(ROOT, 'tools', 'mkcatchtable.py')], capture_output=True, text=True).stdout
mut, seeded = out.split('\n| seeded change |', 1)
seeded = '| seeded change |' + seeded
p = os.path.join(ROOT, 'DESIGN.md'); s = open(p).read()
def put(s, name, body):
    begin, end = '<!-- %s:begin -->' % name, '<!-- %s:end -->' % name
    block = begin + '\n' + body.strip() + '\n' + end
    if begin in s:
        return re.sub(re.escape(begin) + r'.*?' + re.escape(end), lambda m: block, s, flags=re.S)
    return s.replace(name, block)
s = put(s, 'MUTATION_TABLE', mut); s = put(s, 'SEEDED_TABLE', seeded)
open(p, 'w').write(s)
print('tables written')
