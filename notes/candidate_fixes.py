#!/usr/bin/env python3
"""Applies the six candidate repairs D1-D6 of DESIGN.md section 5 to a copy of
okruz/BSplinebasis (argument: root of the copy). Design-phase note, not part of
the checking machinery: a dry run on a scratch copy built with -Werror and
passed 28/28 tests. In /repo each repair is to become its own 'fix:' commit."""
import sys, os
root = sys.argv[1]
def sub(path, old, new):
    p = os.path.join(root, path); s = open(p).read()
    assert s.count(old) == 1, (path, old)
    open(p, 'w').write(s.replace(old, new))
# D1 SplineOperator reads one array past the factor's coefficients
sub('include/bspline/operators/SplineOperator.h',
    '_s.getSupport().relativeFromAbsolute(intervalIndex);',
    '_s.getSupport().intervalIndexFromAbsolute(intervalIndex);')
# D3 Grid accepts NaN
sub('include/bspline/support/Grid.h',
    'if ((*_data)[i - 1] >= (*_data)[i]) {',
    'if (!((*_data)[i - 1] < (*_data)[i])) {')
# D4 Support::at wraps
sub('include/bspline/support/Support.h',
    'if (_startIndex + index >= _endIndex) {', 'if (index >= size()) {')
# D5 intervalIndexFromAbsolute wraps
sub('include/bspline/support/Support.h',
    'if (index >= _startIndex && index + 1 < _endIndex) {',
    'if (index >= _startIndex && index < _endIndex && index + 1 < _endIndex) {')
# D6 erase(end())
sub('examples/diffusion.cpp', 'basis.erase(basis.end());', 'basis.pop_back();')
# D2 operator / integer scalar
p = 'include/bspline/operators/ScalarOperators.h'
sub(p, '  /*! The operator to be multiplied. */\n  O _o;\n',
    '  /*! The operator to be multiplied. */\n  O _o;\n'
    '  /*! Whether the operator is divided by (instead of multiplied with) _s. */\n'
    '  bool _divide = false;\n')
sub(p, '  ScalarMultiplication(S s, O o) : _s(std::move(s)), _o(std::move(o)){};',
    '  ScalarMultiplication(S s, O o, bool divide = false)\n'
    '      : _s(std::move(s)), _o(std::move(o)), _divide(divide){};')
sub(p, '    for (T &el : a) {\n      el *= static_cast<T>(_s);\n    }',
    '    for (T &el : a) {\n      if (_divide) {\n        el /= static_cast<T>(_s);\n'
    '      } else {\n        el *= static_cast<T>(_s);\n      }\n    }')
sub(p, '  return ScalarMultiplication(static_cast<S>(1) / s, std::forward<O>(o));',
    '  return ScalarMultiplication(s, std::forward<O>(o), true);')
print("applied D1-D6 to", root)
